"""./check <Cxx> [--tier quick|thorough] | ./check --replay <file>"""
import argparse
import importlib
import json
import os
import sys

ROOT = os.path.dirname(os.path.dirname(os.path.abspath(__file__)))
sys.path.insert(0, ROOT)
sys.setrecursionlimit(10000)


def main():
    ap = argparse.ArgumentParser()
    ap.add_argument("prop", nargs="?")
    ap.add_argument("--tier", default=os.environ.get("VERIF_TIER", "quick"))
    ap.add_argument("--replay")
    a = ap.parse_args()
    os.environ.setdefault("SCHWIFTY_VERIF", "1")
    seed = int(os.environ.get("VERIF_SEED", "0") or 0)
    if a.replay:
        from props import replay
        sys.exit(replay.main(a.replay))
    if not a.prop:
        ap.error("property id required")
    tier = a.tier if a.tier in ("quick", "thorough") else "quick"
    try:
        mod = importlib.import_module("props." + a.prop.lower())
        rc = mod.main(seed, tier)
    except SystemExit:
        raise
    except BaseException as ex:  # noqa: BLE001 - a crash of the checker is a checker fault (exit 3), never exit 1
        import traceback
        traceback.print_exc()
        print(f"CHECKER-ERROR property={a.prop}: the check crashed: {type(ex).__name__}: {ex}")
        rc = 3
    sys.exit(rc)


if __name__ == "__main__":
    main()
