"""Regenerates MANIFEST.json from the table below and validates it against the schema."""
import json
import os
import sys

ROOT = os.path.dirname(os.path.dirname(os.path.abspath(__file__)))

CHECKS = {
    "C07": dict(
        category="proof",
        text="For each of the 39 registered Bundesbank methods, the real `validate` of the algorithm object is "
             "symbolically executed over ten symbolic digits (all 10^10 account numbers, arbitrary prior values of "
             "the shared scratch fields) and every path is proved (z3/cvc5, unsat) to return the verdict of an "
             "independently written sidecar spec of the published method. Sandwich bands for 13/63/76.",
        design_ref="DESIGN.md C07",
        note="Trusted: pyvc's encoding of the Python subset, z3/cvc5, the transcription of the Bundesbank rules "
             "(A10). Bands 13/63/76 are proved only as lower ⊆ code ⊆ upper. digit_sum is under contract "
             "(verified separately). Registry dispatch (bank code -> method) is a separate obligation group.",
        technique="contract-based deductive verification: VCs generated from the live ASTs by pyvc, discharged by "
                  "z3 (cvc5 for unknowns); counterexamples replayed natively",
    ),
}

CHECKS["C06"] = dict(
    category="proof",
    text="Per country of the bundled table (125 without DE): the real BBAN(K, b).validate_national_checksum() is "
         "symbolically executed for every class-conforming BBAN b; each path is proved to return True exactly when "
         "an independently written spec of the published national rule accepts b and to raise a library error "
         "otherwise; countries without algorithm always return True. Helper contracts (numerify, luhn, get_index, "
         "clean, BBAN.bank) are used at call sites and verified by their own tasks.",
    design_ref="DESIGN.md C06",
    note="Trusted: pyvc encoding, z3/cvc5, transcription of the national rules (A10). For NO accounts whose digits 5-6 "
         "are 00 the rule is the library's documented reading (bank identifier left out), not independently confirmed. BBAN.bank contract (None or an entry of the BBAN's country) assumed here, "
         "proved under C12. The IBAN-level threading of validate_bban is covered by C05's tasks.",
    technique="contract-based deductive verification: VCs from the live ASTs (pyvc), z3/cvc5; native replay",
)

_T = "contract-based deductive verification: VCs generated from the live ASTs by pyvc, z3/cvc5; native replay"
CHECKS["C01"] = dict(
    category="proof",
    text="Case-split scheme over the bundled table: for each of the 126 countries (text starts with that code) and for "
         "the complement (code not in the table), the real IBAN(p, validate_bban=flag) is symbolically executed on a "
         "cleaned text p of SYMBOLIC length; every path is proved to return iff Accept_K(p) (ISO 13616 spec written "
         "from the structure strings, not from the regex converter) and each raise to name a present defect; accepted "
         "texts are proved to be <= 34 characters over [A-Z0-9]. numerify is under contract (=Num), verified per length.",
    design_ref="DESIGN.md C01, 2.5",
    note="Trusted: pyvc encoding, regex formula compiler (differential-tested each run), z3/cvc5. Input is the cleaned "
         "payload; Clean itself is C10. National predicate opaque here (C06/C07).",
    technique=_T)
CHECKS["C02"] = dict(
    category="proof",
    text="Per country: IBAN.from_bban(K, b) for every structure-conforming b returns K+dd+b with dd the canonical "
         "digits in 02..98 and never raises; IBAN(K+xy+b) for every digit pair xy is accepted iff xy = dd, in "
         "particular never for the aliases 00/01/99.",
    design_ref="DESIGN.md C02", note="as C01", technique=_T)
CHECKS["C03"] = dict(
    category="proof",
    text="Link obligations from the real code per country (accepted => chars in [A-Z0-9], len <= 34, Num(bban+cc+dd) "
         "mod 97 = 1; z3) + Lean 4/Mathlib theorems for all lengths (same-kind substitution, adjacent transposition, "
         "seam transposition change the remainder) + bounded native mutation sweep as confirmation.",
    design_ref="DESIGN.md C03, lemmas/C03.lean",
    note="Trusted: as C01 plus Lean kernel/Mathlib; agreement of the Python spec Num with the Lean num (cross-evaluated); "
         "the position map of a mutation into the rearranged list is documented, not machine-checked.",
    technique="contract-based deductive verification (pyvc VCs, z3) + Lean 4 lemmas over the spec function")
CHECKS["C04"] = dict(
    category="proof",
    text="The real BIC(p, enforce_swift_compliance=flag), validate and is_valid are symbolically executed on cleaned "
         "text of symbolic length with a symbolic flag; every path returns iff AcceptBIC(p, flag) (ISO 9362 structure + "
         "ISO 3166-1 membership) and each raise names a present defect.",
    design_ref="DESIGN.md C04",
    note="Trusted: pyvc, regex compiler (self-tested), z3; pycountry membership contract (probed on all 676 codes).",
    technique=_T)
CHECKS["C05"] = dict(
    category="proof",
    text="All IBAN tasks of C01 (construct) plus is_valid for every country and the complement, plus the three BIC "
         "entry points: every symbolic path ends in a return or a library exception (any other exception is a "
         "refuted obligation with a replayed input), is_valid has no raising path, construction succeeds iff "
         "is_valid, and each error class implies its defect predicate.",
    design_ref="DESIGN.md C05",
    note="as C01/C04; national validation enters through the contract of BBAN.validate_national_checksum (C06/C07), "
         "whose own totality is part of C06/C07's tasks.",
    technique=_T)

CHECKS["C08"] = dict(
    category="proof",
    text="Per country with published positions (119): the real IBAN.generate is symbolically executed over three cleaned "
         "components of SYMBOLIC length and arbitrary content; every path is compared with the placement spec written "
         "from the property: components fit => each field equals the zero-padded component, all other positions are "
         "'0', the result is a valid IBAN (Accept_K) and its national digits satisfy the published rule; a component "
         "longer than its field => that component's error class; combined-width bank code + explicit branch => "
         "library error; any non-library exception is a refuted obligation. Countries without positions / unknown: "
         "library error.",
    design_ref="DESIGN.md C08",
    note="Trusted: pyvc encoding incl. the model of str.zfill, regex compiler, z3/cvc5. Components are the cleaned "
         "texts (Clean is C10). Helper contracts as in C06.",
    technique=_T)
CHECKS["C09"] = dict(
    category="proof",
    text="(i) for the 19 countries with a computed national field every IBAN returned by the real generate satisfies "
         "the independent national spec (obligation of the generate tasks); (ii) per country with positions: for every "
         "nationally valid structure-conforming BBAN b, the real BBAN.from_components(components read off b) equals b "
         "at every component position and never raises.",
    design_ref="DESIGN.md C09",
    note="as C08/C06; random draws are connected through C13 (they funnel through from_components).",
    technique=_T)
CHECKS["C10"] = dict(
    category="proof",
    text="clean's body is proved (structurally, opaque string) to be upper(sub(ws+,'',s)); the character-level facts "
         "(class of the live pattern = \\s, upper images are fixed points, no whitespace produced) are decided by "
         "exhaustive enumeration of all 1,114,112 code points; Clean's invariance under whitespace insertion / case "
         "change and idempotence are Lean theorems for arbitrary ws/up; constructors are proved to read the raw text "
         "only through clean; formatted is proved per length against the grouping spec.",
    design_ref="DESIGN.md C10, lemmas/C10.lean",
    note="Assumed: Pattern.sub removes exactly the class characters; str.upper is per-character (both probed). "
         "formatted for invalid objects is bounded in length (<= 36 quick / 64 thorough).",
    technique="contract-based deductive verification (pyvc, z3) + exhaustive enumeration of finite tables + Lean 4 lemmas")
CHECKS["C11"] = dict(
    category="proof",
    text="Per country: for every structure-conforming text of the country's length (superset of accepted IBANs) all "
         "accessors of IBAN and BBAN are proved equal to the published BBAN substrings (or ''), cc+dd+bban = compact, "
         "positions disjoint; for every accepted x, from_bban(x.country_code, x.bban) = x; BIC parts for lengths 8/11.",
    design_ref="DESIGN.md C11", note="as C01; published positions = the effective table (consistency: C17).",
    technique=_T)

CHECKS["C17"] = dict(
    category="proof",
    text="The bundled data are values: well_formed (structure string describes bban_length, iban_length = +4 <= 34, "
         "positions inside the BBAN and disjoint, national algorithms read defined fields, lookup components defined; "
         "bank entries name a table country, BIC empty or valid, bank code empty or fitting the lookup field in length "
         "and classes) is EVALUATED on all 126 + 29,451 entries of the working tree (exhaustive); per country the live "
         "compiled regex is proved (z3) equivalent to the sidecar's reading of the structure on lengths L-1, L, L+1; the "
         "found-again consequence is executed for every bank entry.",
    design_ref="DESIGN.md C17, 2.4",
    note="Exhaustive over the configuration the tree bundles, re-evaluated on every run; future registry updates and "
         "the network-bound scripts/ are out of reach.",
    technique="data-structure invariant evaluated exhaustively on the bundled data + per-country translation validation "
              "of the regex (z3)")
CHECKS["C18"] = dict(
    category="proof",
    text="merge_dicts: the real body is executed on two ABSTRACT dictionaries (any size, keys, values; pyvc abstract "
         "maps): both loops run for one generic key, the recursive call goes through the contract (induction on nesting "
         "depth), and the result is proved pointwise equal to the deep later-wins Merge, arguments unwritten. "
         "registry.get: the real body is executed over directories of 0..4 files with ABSTRACT contents (glob returns "
         "them out of order; merge_dicts / parse_v2 through their contracts) and its result proved to be the left fold "
         "in file-name order; it is also compared with an independent name-ordered fold of the "
         "bundled files - exhaustive for this tree - of a scratch package with order-sensitive overlay files, and of "
         "219 scratch directories (every value kind per file under one key, top level and nested; list / v2 files); "
         "parse_v2 and small-scope merge_dicts enumerations are bounded cross-checks.",
    design_ref="DESIGN.md C18, 0.2",
    note="Proved: the contract of merge_dicts for all dictionaries; the fold of get() for all file contents (number of "
         "files <= 4: bounded in that dimension). Bounded: parse_v2. json / file system assumed.",
    technique="contract-based deductive verification of merge_dicts over abstract maps (pyvc generic-key loops, z3) + "
              "bounded stand-ins for parse_v2/get")

CHECKS["C16"] = dict(
    category="proof",
    text="The real __eq__/__lt__/__hash__ bodies are symbolically executed for pairs of objects of all class "
         "combinations (and against plain strings) with symbolic texts and proved equal to the comparisons of the "
         "compact strings (hash as an uninterpreted function of the text); the other comparisons are shown to be "
         "str's own on the live classes. Copy/deepcopy/pickle: under the assumed reduce protocol the real __new__/"
         "__getnewargs__/__deepcopy__ are executed for every class x operation on symbolic texts (valid or not): the "
         "reconstruction call binds, never raises, and yields the same class and text.",
    design_ref="DESIGN.md C16",
    note="Thin: the copy/pickle protocol is an assumed contract (probed natively by each task's cross-check). "
         "Comparison obligations are per length pair (bodies are length-independent).",
    technique=_T)

CHECKS["C14"] = dict(
    category="proof",
    text="Sufficient condition for serial equivalence, proved over all symbolic paths of the call trees of validation "
         "(with/without national check), all 39 German methods, all national algorithms, BIC and generation: every "
         "attribute/container write targets an object allocated in the call (pyvc write log). Where a shared write "
         "exists, the functional contract is re-proved with every read of that field arbitrary (constrained by what "
         "some call can write there); a failure is replayed natively under a forced two-thread schedule. Where neither "
         "tier decides (shared iterators, lists mutated in place, interference proof cut off) a BOUNDED native sweep parks "
         "one call at every bytecode instruction of its run inside the library while another call runs to completion "
         "(forked per schedule) and compares both answers with the answers alone.",
    design_ref="DESIGN.md C14",
    note="The family has no schedule quantifier: the non-interference meta-theorem, thread safety of read-only use of "
         "dependencies and the per-thread semantics of threading.local are assumed. The schedule sweep is a bounded "
         "confirmation step (two threads, one preemption), not an enumeration of interleavings.",
    technique="contract-based deductive verification: write-frame obligations + rely/guarantee re-proof (pyvc, z3); "
              "forced-schedule native replay")
CHECKS["C15"] = dict(
    category="proof",
    text="The functional contracts of the same call trees are proved with the scratch state of the shared algorithm "
         "objects havocked at entry and functools.lru_cache modelled as 'fresh result or result of an earlier call with "
         "an equal key' (history-dependent caches are refuted and replayed with the earlier call as prelude); write "
         "frames show no call writes registries, arguments or earlier objects; a bounded native run compares ~1,100 calls "
         "(incl. near-miss siblings of accepted texts and the same account under every German method) - "
         "each alone on pristine state (forked per call) - with their outcomes under three histories in fresh processes, "
         "and the registries / algorithm objects before and after.",
    design_ref="DESIGN.md C15",
    note="History carriers other than instance scratch fields, threading.local storage and lru_cache are only caught "
         "as frame violations (writes to shared containers) or by the bounded native history run.",
    technique=_T + "; bounded native history comparison")

CHECKS["C12"] = dict(
    category="proof",
    text="from_bank_code: the real body is executed on an ABSTRACT candidate list (any length, any valid BICs; pyvc "
         "abstract lists) and proved to return a member - an 8-character one if any, else one with branch XXX, else the "
         "first - and to raise InvalidBankCode exactly for the empty list. candidates_from_bank_code is executed on an "
         "ABSTRACT registry group of any size (sort key, filter, map for one generic entry; sorted() assumed stable) and "
         "again on symbolic groups of bounded size. registry.build_index(accumulate=True) is executed on an ABSTRACT bank "
         "list (loop body for one generic entry); the generalisation to the whole list - the grouping meta-theorem - is a "
         "Lean 4 theorem (lemmas/C12.lean: group_loop, group_loop_present, group_loop_sound, group_loop_sublist) re-checked "
         "by every run and cross-checked natively. The bundled "
         "registry is evaluated exhaustively: all 22,753 keys, 7,769 BICs, unlisted pairs, IBAN-side accessors, "
         "build_index == grouping spec, invertibility.",
    design_ref="DESIGN.md C12, 0.2",
    note="Unbounded: the selection rule, the candidates list, the per-entry contract of build_index + the Lean grouping "
         "theorem (assumed: sorted() stable; that the Lean loop schema - foldl of a guarded append, absent slot = [] - is what "
         "the Python for-loop does). Exhaustive on the bundled data only: invertibility, IBAN-side accessors.",
    technique="contract-based deductive verification of the real lookup bodies (pyvc abstract lists / bounded symbolic "
              "groups, z3) + Lean 4 lemma for the grouping induction + exhaustive evaluation of the lookup contract on the "
              "bundled registry")
CHECKS["C13"] = dict(
    category="proof",
    text="Per country x registry mode x pinned subset (698 variants): the real BBAN.random is executed with the caller's "
         "generator replaced by an oracle under assumed contracts (choice returns a member; xeger returns a full match "
         "of the live pattern) and the registry group abstracted to an arbitrary well-formed entry; every returning path "
         "is proved to yield a structure-conforming BBAN of the country with the pins unchanged and the chosen bank's "
         "code in place; the only error is the documented overflow; the call tree has no other source of nondeterminism. "
         "Cross-process / hash-seed reproducibility: bounded runs in fresh processes.",
    design_ref="DESIGN.md C13",
    note="Assumed contracts of random/rstr; retry loop as one generic iteration; pins of exactly the field width; "
         "validity of IBAN.random by composition with C02; hash-seed clause bounded.",
    technique=_T + "; bounded subprocess runs for the hash-seed clause")

NOT_YET = {}

ALL = [f"C{i:02d}" for i in range(1, 19)]


EXTRA_NOTES = {
    "C01": "Also: IBAN.from_bban(K, b, validate_bban=flag) over every text b of the right / wrong length for six countries "
           "(the alternate constructor validates like IBAN(...)).",
    "C02": "Digit pairs are tried with a symbolic validate_bban flag and, for four countries, through an unvalidated IBAN object.",
    "C05": "Also: from_bban over texts of right / wrong length (12 countries), a bounded native sweep of from_bban on raw "
           "spellings, and the lookup constructors over every registry key.",
    "C06": "The flag is also threaded through IBAN.from_bban for the 22 countries.",
    "C07": "Also: one method per bank code in the registry (data obligation), from_bban threading for DE, verdict pins inside the bands.",
    "C10": "The bounded sweep also covers IBAN.from_bban on raw BBAN text and IBAN.generate with whitespace / lower case inside components.",
    "C11": "Also: accepted BICs of ANY length tile into 4+2+2(+3), lenient re-assembly (allow_invalid=True) for five countries.",
    "C13": "Bounded additions: combined (bank+branch) pins for every country with both fields, the same seeded call repeated "
           "after reading components and after a pinned call, only the overflow error admitted.",
    "C16": "All ordered class pairs (BBANs of different countries); every pickle protocol on the live classes (bounded).",
}
for _k, _v in EXTRA_NOTES.items():
    CHECKS[_k]["note"] = (CHECKS[_k].get("note", "") + " " + _v).strip()


def main():
    checks = []
    for pid in ALL:
        if pid not in CHECKS:
            continue
        c = CHECKS[pid]
        checks.append(dict(
            property_id=pid,
            quick_cmd=f"./check {pid} --tier quick",
            thorough_cmd=f"./check {pid} --tier thorough",
            evidence_file=f"/verif/evidence/{pid}.json",
            replay_cmd_template="./check --replay {path}",
            engine="pyvc",
            level_claimed=dict(category=c["category"], text=c["text"], design_ref=c["design_ref"]),
            level_note=c["note"],
            technique=c["technique"],
        ))
    na = [dict(property_id=p, reason=NOT_YET.get(p, "check not built yet in this round; contract route described in "
                                                 "DESIGN.md, no claim made until its obligations are discharged on every run"))
          for p in ALL if p not in CHECKS]
    man = dict(
        version=1,
        setup_cmd="./tools/setup.sh",
        hooks=dict(guard="SCHWIFTY_VERIF",
                   enable="no source hooks: contracts are sidecars under /verif/contracts, the checks import /repo's "
                          "working tree (editable install) in a fresh process; SCHWIFTY_VERIF=1 is set by ./check "
                          "and read by nothing in /repo",
                   baseline_off_cmd="cd /repo && /venv/bin/python -m pytest -ra -q -p no:cacheprovider --timeout=900 "
                                    "--continue-on-collection-errors",
                   source_commits=[], add_only=True),
        engines=[dict(name="pyvc", path="/verif/pyvc", serves_properties=sorted(CHECKS),
                      kind_free_text="AST->VC generator (hybrid concrete/symbolic interpreter of the real function "
                                     "bodies, sidecar contracts/spec functions) + z3 5.1 / cvc5 back ends + native replay")],
        checks=checks,
        not_applicable=na,
        notes="Exit codes of every check: 0 held, 1 violation (VIOLATION line + replay file), 2 undecided, 3 checker "
              "fault. KNOWN_FINDINGS.txt is read-only at run time.",
    )
    path = os.path.join(ROOT, "MANIFEST.json")
    with open(path, "w", encoding="utf-8") as fp:
        json.dump(man, fp, indent=1, ensure_ascii=False)
    try:
        import jsonschema
        jsonschema.validate(man, json.load(open("/root/.vp/MANIFEST.schema.json")))
        print("MANIFEST.json valid;", len(checks), "checks,", len(na), "not_applicable")
    except ImportError:
        print("jsonschema unavailable; not validated")


if __name__ == "__main__":
    sys.exit(main())
