"""Regression over the saved seeded changes: every /verif/seeded/<id>/patch.diff is applied to a scratch worktree
of /repo and the checks its meta.json lists with "exit 1" are run against it (must exit 1 with a VIOLATION line);
the harmless controls (meta: expect_exit 0) must leave every listed check at exit 0.
usage: tools/seed_regress.py [id-prefix-or-substring ...]      (results: one line per (change, check); summary at the end)"""
import functools
import json
import os
import subprocess
import sys
import tempfile
import time

print = functools.partial(print, flush=True)
ROOT = os.path.dirname(os.path.dirname(os.path.abspath(__file__)))


def sh(cmd, **kw):
    return subprocess.run(cmd, shell=True, capture_output=True, text=True, **kw)


def main():
    want = sys.argv[1:]
    bad = []
    n = 0
    for sid in sorted(os.listdir(os.path.join(ROOT, "seeded"))):
        d = os.path.join(ROOT, "seeded", sid)
        if want and not any(sid.startswith(w) or w in sid for w in want):
            continue
        meta = json.load(open(os.path.join(d, "meta.json")))
        checks = meta.get("checks", {})
        harmless = meta.get("expect_exit") == 0 or sid.startswith("harmless")
        todo = [(p, 0) for p in checks if p.startswith("C")] if harmless else \
            [(p, 1) for p, txt in checks.items() if p.startswith("C") and str(txt).startswith("exit 1")]
        if not todo:
            continue
        wt = tempfile.mkdtemp(prefix="regwt", dir="/tmp")
        os.rmdir(wt)
        if sh(f"git -C /repo worktree add -q --detach {wt} HEAD").returncode:
            print(sid, "worktree failed")
            continue
        ev = tempfile.mkdtemp(prefix="regev", dir="/tmp")
        try:
            a = sh(f"git -C {wt} apply {d}/patch.diff")
            if a.returncode:
                print(sid, "patch does not apply:", a.stderr[:200])
                bad.append((sid, "apply"))
                continue
            env = dict(os.environ, PYTHONPATH=wt, PYVC_REPO=wt + "/", PYVC_EVIDENCE_DIR=ev)
            for p, exp in todo:
                t0 = time.time()
                try:
                    r = sh(f"cd {ROOT} && ./check {p} --tier quick", timeout=3600, env=env)
                    rc = r.returncode
                    viol = any(ln.startswith("VIOLATION") for ln in r.stdout.splitlines())
                except subprocess.TimeoutExpired:
                    rc, viol = "timeout", False
                ok = (rc == exp) and (viol == (exp == 1))
                n += 1
                print(f"{'ok  ' if ok else 'FAIL'} {sid:14s} {p}: exit {rc} (expected {exp}) {time.time() - t0:.0f}s")
                if not ok:
                    bad.append((sid, p, rc))
        finally:
            sh(f"git -C /repo worktree remove --force {wt}")
            sh(f"rm -rf {ev}")
    print(f"{n} runs, {len(bad)} unexpected: {bad}")
    return 1 if bad else 0


if __name__ == "__main__":
    sys.exit(main())
