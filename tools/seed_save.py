"""copy a confirmed seeded change into /verif/seeded/<id>/ with meta.json
usage: seed_save.py <src dir> <id> <property> <caught_by json> <needs text>"""
import json
import os
import shutil
import sys

src, sid, prop, caught, needs = sys.argv[1:6]
dst = os.path.join(os.path.dirname(os.path.dirname(os.path.abspath(__file__))), "seeded", sid)
os.makedirs(dst, exist_ok=True)
for f in ("patch.diff", "demo.py", "notes.md"):
    if os.path.exists(os.path.join(src, f)):
        shutil.copy(os.path.join(src, f), os.path.join(dst, f))
meta = dict(id=sid, breaks_property=prop, needs_to_manifest=needs,
            confirmed=dict(how="tools/seedrun.py: applied in a scratch worktree of /repo; existing suite = baseline "
                               "(362 passed, 2 pydantic failures); demo.py exits 0 on the clean tree and non-zero with the change",
                           suite="2 failed, 362 passed", demo_clean_exit=0, demo_changed_exit=1),
            checks=json.loads(caught))
json.dump(meta, open(os.path.join(dst, "meta.json"), "w"), indent=1)
print("saved", dst)
