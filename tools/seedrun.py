"""Apply a seeded change to a scratch worktree of /repo, confirm it (suite green, demo fails), run the given checks
against that worktree (PYTHONPATH + PYVC_REPO), remove the worktree.  /repo itself is not touched.
usage: tools/seedrun.py <dir with patch.diff [+ demo.py]> <Cxx> [<Cxx> ...]"""
import os
import subprocess
import functools
print = functools.partial(print, flush=True)
import sys
import tempfile

ROOT = os.path.dirname(os.path.dirname(os.path.abspath(__file__)))


def sh(cmd, **kw):
    return subprocess.run(cmd, shell=True, capture_output=True, text=True, **kw)


def main():
    d = os.path.abspath(sys.argv[1])
    props = sys.argv[2:]
    patch = os.path.join(d, "patch.diff")
    demo = os.path.join(d, "demo.py")
    wt = tempfile.mkdtemp(prefix="seedwt", dir="/tmp")
    os.rmdir(wt)
    r = sh(f"git -C /repo worktree add -q --detach {wt} HEAD")
    if r.returncode:
        print("worktree failed", r.stderr)
        return 2
    try:
        if os.path.exists(demo):
            r = sh(f"cd {wt} && PYTHONPATH={wt} /venv/bin/python {demo}")
            print(f"demo on clean tree: exit {r.returncode}")
        a = sh(f"git -C {wt} apply {patch}")
        if a.returncode != 0:
            print("patch does not apply:", a.stderr[:300])
            return 2
        t = sh(f"cd {wt} && /venv/bin/python -m pytest -q -p no:cacheprovider tests 2>&1 | tail -1")
        print("suite with change:", t.stdout.strip())
        if os.path.exists(demo):
            r = sh(f"cd {wt} && PYTHONPATH={wt} /venv/bin/python {demo}")
            print(f"demo with change: exit {r.returncode}")
        ev = tempfile.mkdtemp(prefix="seedev", dir="/tmp")
        env = dict(os.environ, PYTHONPATH=wt, PYVC_REPO=wt + "/", PYVC_EVIDENCE_DIR=ev)
        for p in props:
            r = sh(f"cd {ROOT} && ./check {p} --tier quick", timeout=3000, env=env)
            viol = [ln for ln in r.stdout.splitlines() if ln.startswith(("VIOLATION", "CHECKER", "UNDECIDED"))]
            print(f"  {p}: exit {r.returncode}; {len(viol)} lines; " + (viol[0][:230] if viol else ""))
            for ln in r.stdout.splitlines():
                if ln.strip().startswith(("witness:", "CONFIRMED", "replayed")):
                    print("      " + ln.strip()[:260])
                    break
            print("      " + r.stdout.strip().splitlines()[-1][:200] if r.stdout.strip() else "")
        sh(f"rm -rf {ev}")
    finally:
        sh(f"git -C /repo worktree remove --force {wt}")
    return 0


if __name__ == "__main__":
    sys.exit(main())
