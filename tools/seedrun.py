"""Apply a seeded change to /repo, confirm it (suite green, demo fails), run the given checks, undo it.
usage: tools/seedrun.py <dir with patch.diff [+ demo.py]> <Cxx> [<Cxx> ...]"""
import os
import subprocess
import sys

ROOT = os.path.dirname(os.path.dirname(os.path.abspath(__file__)))


def sh(cmd, **kw):
    return subprocess.run(cmd, shell=True, capture_output=True, text=True, **kw)


def main():
    d = os.path.abspath(sys.argv[1])
    props = sys.argv[2:]
    patch = os.path.join(d, "patch.diff")
    st = sh("git -C /repo status --porcelain")
    if st.stdout.strip():
        print("refusing: /repo has uncommitted changes")
        return 2
    demo = os.path.join(d, "demo.py")
    if os.path.exists(demo):
        r = sh(f"cd /repo && PYTHONPATH=/repo /venv/bin/python {demo}")
        print(f"demo on clean tree: exit {r.returncode}")
    a = sh(f"git -C /repo apply {patch}")
    if a.returncode != 0:
        print("patch does not apply:", a.stderr[:300])
        return 2
    try:
        t = sh("cd /repo && /venv/bin/python -m pytest -q -p no:cacheprovider tests 2>&1 | tail -1")
        print("suite with change:", t.stdout.strip())
        if os.path.exists(demo):
            r = sh(f"cd /repo && PYTHONPATH=/repo /venv/bin/python {demo}")
            print(f"demo with change: exit {r.returncode}")
        for p in props:
            r = sh(f"cd {ROOT} && ./check {p} --tier quick", timeout=3000)
            viol = [ln for ln in r.stdout.splitlines() if ln.startswith(("VIOLATION", "CHECKER", "UNDECIDED"))]
            print(f"  {p}: exit {r.returncode}; {len(viol)} lines; " + (viol[0][:230] if viol else ""))
            for ln in r.stdout.splitlines():
                if ln.strip().startswith(("witness:", "CONFIRMED", "replayed")):
                    print("      " + ln.strip()[:200])
                    break
    finally:
        sh("git -C /repo checkout -- . && git -C /repo clean -fdq schwifty")
    print("restored:", sh("git -C /repo status --porcelain").stdout.strip() or "clean")
    return 0


if __name__ == "__main__":
    sys.exit(main())
