#!/bin/sh
# Offline setup: python 3.12 overlay venv with z3/cvc5/crosshair/deal/icontract/jsonschema from the
# local wheelhouse, plus a .pth that adds /venv's site-packages (pycountry, rstr, editable schwifty -> /repo).
set -e
cd "$(dirname "$0")/.."
V=.venv
if [ ! -x "$V/bin/python" ] || ! "$V/bin/python" -c "import z3, cvc5, jsonschema, schwifty" 2>/dev/null; then
  rm -rf "$V"
  /venv/bin/python -m venv "$V"
  SP=$("$V/bin/python" -c "import sysconfig; print(sysconfig.get_paths()['purelib'])")
  echo "import site; site.addsitedir('/venv/lib/python3.12/site-packages')" > "$SP/zz_repo_venv.pth"
  PIP_NO_INDEX=1 "$V/bin/python" -m pip install -q --no-index --find-links /opt/veriftools/wheels \
      z3-solver cvc5 jsonschema icontract deal crosshair-tool >/dev/null
fi
"$V/bin/python" -c "import z3, cvc5, jsonschema, schwifty; print('setup ok: z3', z3.get_version_string(), 'schwifty from', schwifty.__file__)"
