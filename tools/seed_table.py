"""regenerate the seeded-changes table in DESIGN.md (section 0.5) from seeded/*/meta.json"""
import glob
import json
import os
import re

ROOT = os.path.dirname(os.path.dirname(os.path.abspath(__file__)))
rows = []
for f in sorted(glob.glob(os.path.join(ROOT, "seeded", "*", "meta.json"))):
    m = json.load(open(f))
    checks = "; ".join(f"{k}: {v}" for k, v in m.get("checks", {}).items())
    rows.append(f"| {m['id']} | {m.get('breaks_property') or '(none: control)'} | {m.get('needs_to_manifest', m.get('what', ''))[:140]} | {checks[:330]} |")
table = ("Every change below was produced by a fresh sub-agent that saw only the text of one property and its own scratch\n"
         "worktree; each was confirmed here (suite = baseline, demo fails with the change and passes without) with\n"
         "`tools/seedrun.py`, which applies the patch to a scratch worktree and runs the checks against it.  "
         f"{len(rows)} entries.\n\n"
         "| id | breaks | needs, to manifest | which check reports it (and how) |\n|---|---|---|---|\n" + "\n".join(rows) + "\n")
p = os.path.join(ROOT, "DESIGN.md")
s = open(p).read()
if "SEEDED_TABLE_PLACEHOLDER" in s:
    s = s.replace("SEEDED_TABLE_PLACEHOLDER", "<!-- seeded-table-begin -->\n" + table + "<!-- seeded-table-end -->")
else:
    s = re.sub(r"<!-- seeded-table-begin -->.*?<!-- seeded-table-end -->",
               lambda _m: "<!-- seeded-table-begin -->\n" + table + "<!-- seeded-table-end -->", s, flags=re.S)
open(p, "w").write(s)
print(len(rows), "rows")
