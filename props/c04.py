"""C04 - BIC acceptance is exactly the ISO 9362 structure with a known country code."""
import time


def iso_probe():
    """assumption A5 probed: countries.get(alpha_2=x) is non-None exactly for the listed alpha-2 codes"""
    import itertools
    import string
    import pycountry
    from pyvc import models
    listed = set(models.iso_codes())
    bad = []
    n = 0
    for a, b in itertools.product(string.ascii_uppercase, repeat=2):
        n += 1
        if (pycountry.countries.get(alpha_2=a + b) is not None) != ((a + b) in listed):
            bad.append(a + b)
    return n, bad


def rx_selftest():
    from pyvc import rx
    from schwifty import bic
    import re
    # the module-level patterns the library happens to have (their names are not part of any contract)
    pats = [v for k, v in sorted(vars(bic).items()) if isinstance(v, re.Pattern)]
    pats = pats or [re.compile(r"[A-Z0-9]{4}[A-Z]{2}[A-Z0-9]{2}(?:[A-Z0-9]{3})?", re.ASCII)]
    return rx.selftest(pats, per_pattern=300)


def main(seed, tier):
    from props import common
    t0 = time.time()
    n_iso, bad_iso = iso_probe()
    n_rx, bad_rx, diffs = rx_selftest()
    specs = [("props.bictasks", "BicTask", (m,)) for m in ("construct", "validate", "is_valid", "from-object")]
    results = common.run_tasks(specs, seed, tier)
    if bad_iso or bad_rx:
        results.append(dict(task="assumption probes", obligations=[], functions={}, files={}, paths=0,
                            error=f"checker fault: assumed contracts do not hold: pycountry {bad_iso[:5]}, regex {diffs[:2]}"))
    return common.finish(
        "C04", results, t0, seed, tier,
        extra_cov=dict(iso_probe_cases=n_iso, regex_selftest_cases=n_rx),
        assumptions=["A2 re: formula compiler differential-tested against CPython on the two live BIC patterns",
                     "A3 input is the cleaned payload (Base invariant), established for every text by C10",
                     "A5 pycountry.countries.get(alpha_2=x) is non-None exactly for the alpha-2 codes it lists "
                     f"(probed on {n_iso} codes this run); ISO 3166-1 = that list"],
        not_proved_note="every path of the real BIC(p, enforce_swift_compliance=flag) / validate / is_valid over "
                        "symbolic-length cleaned text and symbolic flag returns iff AcceptBIC(p, flag); each raise "
                        "names a present defect")
