"""./check --replay <file>: re-run the recorded counterexample natively against the current /repo tree."""
import importlib
import json


def main(path):
    d = json.load(open(path, encoding="utf-8"))
    spec = d.get("task_spec")
    wit = d.get("witness")
    print(f"property {d['property']}  obligation: {d['obligation']}")
    if not spec or wit is None:
        print("no concrete witness recorded (no-failing-input-found); solver output:", d.get("solver_output"))
        print(d.get("native_replay", ""))
        return 0
    mod = importlib.import_module(spec[0])
    t = getattr(mod, spec[1])(*spec[2])
    fns = []
    if isinstance(wit, dict) and wit.get("__prelude__"):
        from pyvc import task as T
        print("earlier calls (history the failure needs):", wit.get("__earlier_calls__"))
        fns = T.run_prelude(wit["__prelude__"])
    earlier = wit.get("__earlier_samples__") if isinstance(wit, dict) else None
    if isinstance(wit, dict):
        wit = {k: v for k, v in wit.items() if not k.startswith("__") or k == "__schedule__"}
    if earlier:
        ok, c, s = t.native_agree(dict(wit))
        if not ok:
            print(f"witness {wit!r}: real code -> {c!r}; sidecar spec -> {s!r}")
            print("REPRODUCED: the real code breaks the contract on this input (alone, no history needed)")
            return 1
        print(f"alone the input agrees with the spec; replaying the {len(earlier)} earlier calls of the recorded sequence first")
        for e in earlier:
            try:
                t.native_agree(e)
            except Exception:  # noqa: BLE001
                pass
    try:
        ok, c, s = t.native_agree(wit)
    finally:
        for fn in fns:
            if hasattr(fn, "cache_clear"):
                fn.cache_clear()
    print(f"witness {wit!r}: real code -> {c!r}; sidecar spec -> {s!r}")
    if ok:
        print("the recorded counterexample no longer fails on this tree")
        return 0
    print("REPRODUCED: the real code breaks the contract on this input")
    return 1
