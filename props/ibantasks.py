"""Tasks over the real IBAN constructor / validate / is_valid, one per country of the bundled table plus one for
"country code not in the table" (the case-split scheme of DESIGN 2.5).  Used by C01, C02, C03, C05, C06."""
from __future__ import annotations

import z3

from contracts import common as CC
from contracts import iban as S
from pyvc import task as T
from pyvc.values import SBool, SFn, SObj, SStr, Unsupported, concretize, is_sym, payload

NatOK = {}


def nat_ok(cc, chars):
    """opaque predicate: the national check of country cc accepts this BBAN (contract of
    BBAN.validate_national_checksum, proved against the published rules in C06/C07)"""
    n = len(chars)
    key = (cc, n)
    if key not in NatOK:
        NatOK[key] = z3.Function(f"NatOK_{cc}", *([z3.IntSort()] * n), z3.BoolSort())
    return NatOK[key](*chars)


def national_contract(I, self):
    """contract of BBAN.validate_national_checksum as seen by IBAN.validate: returns True when the national
    rule accepts the BBAN, raises InvalidBBANChecksum otherwise; nothing else"""
    from schwifty import exceptions
    from pyvc.values import Raised
    cc = I.pin_str(payload(I.getattr(self, "country_code")))
    v = payload(self)
    if isinstance(v, SFn):
        n = I.pin_length(v)
        if n is None:
            raise Unsupported("validate_national_checksum on a BBAN of unpinned length")
        v = I.vector_of(v, n)
    if not isinstance(cc, str):
        raise Unsupported("validate_national_checksum with symbolic country code")
    chars = CC.lift_str(v).chars
    if I.branch(SBool(nat_ok(cc, chars))):
        return True
    # rejection is by InvalidBBANChecksum, or (Norway: no check digit exists) by InvalidAccountCode (C06 contract)
    if I.branch(SBool(z3.Bool("national_rejects_with_account_code_error"))):
        raise Raised(exceptions.InvalidAccountCode("Check digit does not compute"))
    raise Raised(exceptions.InvalidBBANChecksum("Invalid national checksum"))


def table():
    from schwifty import registry
    return registry.get("iban")


LIB = ("InvalidStructure", "InvalidCountryCode", "InvalidLength", "InvalidChecksumDigits", "InvalidBBANChecksum",
       "InvalidAccountCode")


class IbanTask(T.Task):
    """IBAN(p, validate_bban=flag) for the cleaned text p of any length whose first two characters are `cc`
    (cc = None: every p whose country code is not in the table)."""
    crosscheck_samples = 120

    def __init__(self, cc, mode="construct"):
        self.cc = None if cc in (None, "None", "-") else cc
        self.mode = mode
        self.name = f"IBAN[{self.cc or 'unknown country'}].{mode}"
        tab = table()
        self.L = tab[self.cc]["bban_length"] if self.cc else 0
        self.cls = tuple(CC.classes(tab[self.cc]["bban_spec"])) if self.cc else ()
        self.contracts = {
            "schwifty.common.clean": CC.clean_contract,
            "schwifty.checksum.numerify": CC.make_numerify_contract(self.L),
            "contracts.common.Num": CC.make_num_spec_contract(self.L),
            "schwifty.bban.BBAN.validate_national_checksum": national_contract,
        }

    # ---------------------------------------------------------------- symbolic side
    def setup(self, I):
        p = CC.fresh_clean_text(I, "p")
        self.p = p
        tab = table()
        if self.cc:
            I.assumptions += [p.len >= 2, p.at(z3.IntVal(0)) == ord(self.cc[0]), p.at(z3.IntVal(1)) == ord(self.cc[1])]
        else:
            c0, c1 = p.at(z3.IntVal(0)), p.at(z3.IntVal(1))
            I.assumptions.append(z3.Not(z3.And(p.len >= 2, z3.Or(*[z3.And(c0 == ord(k[0]), c1 == ord(k[1]))
                                                                   for k in tab]))))
        flag = z3.Bool("validate_bban")
        return {"p": p, "validate_bban": SBool(flag)}

    def code(self, I, inp):
        from schwifty import IBAN
        if self.mode == "construct":
            return I.call(IBAN, [inp["p"]], {"validate_bban": inp["validate_bban"]})
        obj = I.call(IBAN, [inp["p"]], {"allow_invalid": True})
        if self.mode == "from-object":
            # the text may itself be an (unvalidated) IBAN object: same outcome as for the plain text
            return I.call(IBAN, [obj], {"validate_bban": inp["validate_bban"]})
        if self.mode == "is_valid":
            return I.getattr(obj, "is_valid")
        return I.call(I.getattr(obj, "validate"), [], {"validate_bban": inp["validate_bban"]})

    def observe(self, I, path):
        o = T.std_observe(path)
        if isinstance(o, SObj):
            return "ACCEPT"
        return o

    def custom_obligations(self, I, inp, code_paths, cobs):
        p = inp["p"]
        flag = inp["validate_bban"].t
        known = self.cc is not None
        out = []
        if known:
            accept, cov = T.spec_formula(I, S.accept_k, [p, self.cc, self.cls])
        else:
            accept, cov = z3.BoolVal(False), z3.BoolVal(True)
        d_struct, c1 = T.spec_formula(I, S.defect_structure, [p, known, self.cls])
        d_len, c2 = T.spec_formula(I, S.defect_length, [p, known, self.cls])
        d_dig, c3 = T.spec_formula(I, S.defect_digits, [p, known, self.cls])
        out.append(("spec functions are total on the domain", [], z3.And(cov, c1, c2, c3)))
        bban = None
        for i, (path, o) in enumerate(cobs):
            pc = path["pc"]
            if isinstance(o, T.Escape):
                continue
            if known:
                # on every path that got past the length check the BBAN is a vector of L characters
                nat = nat_ok(self.cc, [p.at(z3.IntVal(4 + j)) for j in range(self.L)])
            else:
                nat = z3.BoolVal(True)
            full = z3.And(accept, z3.Implies(flag, nat)) if self.mode != "is_valid" else accept
            if o == "ACCEPT" or o is True:
                out.append((f"path {i}: accepted => Accept(p)" + (" and national rule" if known else ""), pc, full))
                if known:
                    # C03 link: an accepted IBAN's rearranged numeric rendering leaves remainder 1 modulo 97
                    vec = [p.at(z3.IntVal(j)) for j in range(self.L + 4)]
                    out.append((f"path {i}: accepted => Num(bban + cc + dd) mod 97 = 1", pc,
                                CC.num_term(I, vec[4:] + vec[:4], self.L) % 97 == 1))
                if known:
                    out.append((f"path {i}: accepted => at most 34 characters, all in [A-Z0-9]", pc,
                                z3.And(p.len <= 34, *[CC.z_alnum(p.at(z3.IntVal(j))) for j in range(self.L + 4)])))
            elif o is False and self.mode == "is_valid":
                out.append((f"path {i}: is_valid False => not Accept(p)", pc, z3.Not(accept)))
            elif isinstance(o, T.ExcTag) and o.name in LIB and self.mode != "is_valid":
                defect = {"InvalidStructure": d_struct,
                          "InvalidCountryCode": z3.BoolVal(not known),
                          "InvalidLength": d_len,
                          "InvalidChecksumDigits": d_dig,
                          "InvalidBBANChecksum": z3.And(accept, flag, z3.Not(nat)),
                          "InvalidAccountCode": z3.And(accept, flag, z3.Not(nat))}[o.name]
                out.append((f"path {i}: raises {o.name} => that defect is present", pc, defect))
                out.append((f"path {i}: raises {o.name} => not accepted by the spec", pc, z3.Not(full)))
            else:
                out.append((f"path {i}: outcome {o!r} is not an admitted outcome", pc, z3.BoolVal(False)))
        return out

    # ---------------------------------------------------------------- native side
    def native_code(self, inp):
        from schwifty import IBAN
        if self.mode == "construct":
            o = T.native_obs(lambda: IBAN(inp["p"], validate_bban=inp["validate_bban"]))
        elif self.mode == "from-object":
            o = T.native_obs(lambda: IBAN(IBAN(inp["p"], allow_invalid=True), validate_bban=inp["validate_bban"]))
        elif self.mode == "is_valid":
            o = T.native_obs(lambda: IBAN(inp["p"], allow_invalid=True).is_valid)
        else:
            o = T.native_obs(lambda: IBAN(inp["p"], allow_invalid=True).validate(validate_bban=inp["validate_bban"]))
        if not isinstance(o, (T.ExcTag, T.Escape, bool)):
            return "ACCEPT"
        return o

    def native_agree(self, inp):
        from props.bictasks import spec_clean
        p = spec_clean(inp["p"])       # the code gets the text as given, the spec the sidecar's own Clean(text)
        c = self.native_code(inp)
        tab = table()
        cc = p[:2]
        known = cc in tab
        cls = tuple(CC.classes(tab[cc]["bban_spec"])) if known else ()
        acc = bool(known and S.accept_k(p, cc, cls))
        nat = True
        if acc and inp.get("validate_bban") and self.mode != "is_valid":
            nat = native_national(cc, p[4:])
        full = acc and nat
        if c == "ACCEPT" or c is True:
            ok = full and (len(p) <= 34 and all(ch in "0123456789ABCDEFGHIJKLMNOPQRSTUVWXYZ" for ch in p))
            return ok, c, f"Accept={acc} national={nat}"
        if c is False and self.mode == "is_valid":
            return (not acc), c, f"Accept={acc}"
        if isinstance(c, T.ExcTag) and c.name in LIB and self.mode != "is_valid":
            defect = {"InvalidStructure": lambda: S.defect_structure(p, known, cls),
                      "InvalidCountryCode": lambda: not known,
                      "InvalidLength": lambda: S.defect_length(p, known, cls),
                      "InvalidChecksumDigits": lambda: S.defect_digits(p, known, cls),
                      "InvalidBBANChecksum": lambda: acc and not nat,
                      "InvalidAccountCode": lambda: acc and not nat}[c.name]()
            return bool(defect) and not full, c, f"Accept={acc} national={nat} defect_present={bool(defect)}"
        return False, c, f"Accept={acc} (outcome not admitted)"

    def sample(self, rnd):
        # histories: now and then return a single-character variant of the last VALID sample (same process, so a
        # result that depends on an earlier call - memo tables, caches - is exercised by the bounded cross-check)
        last = getattr(self, "_last_valid", None)
        if last and rnd.random() < 0.3:
            i = rnd.randrange(2, len(last))
            alpha = "0123456789" if last[i].isdigit() else "ABCDEFGHIJKLMNOPQRSTUVWXYZ"
            v = last[:i] + rnd.choice([c for c in alpha if c != last[i]]) + last[i + 1:]
            return {"p": v, "validate_bban": False}
        s = self._sample(rnd)
        if rnd.random() < 0.15:
            from props.bictasks import raw_variant
            s["p"] = raw_variant(rnd, s["p"])
            return s
        if self.cc and len(s["p"]) == self.L + 4 and not s["validate_bban"]:
            try:
                if S.accept_k(s["p"], self.cc, self.cls):
                    self._last_valid = s["p"]
            except Exception:  # noqa: BLE001
                pass
        return s

    def _sample(self, rnd):
        tab = table()
        cc = self.cc or rnd.choice(["XX", "ZZ", "A1", "1A", "D", "", "Q", "AA", "É9", "YY", "0", "D-"])
        if self.cc:
            bban = "".join(rnd.choice({"n": "0123456789", "a": "ABCDEFGHIJKLMNOPQRSTUVWXYZ",
                                       "c": "0123456789ABCDEFGHIJKLMNOPQRSTUVWXYZ"}[k]) for k in self.cls)
            k = 98 - (CC.Num(bban + cc) * 100) % 97
            p = f"{cc}{k:02d}{bban}"
        else:
            p = cc + "".join(rnd.choice("0123456789ABCXYZ") for _ in range(rnd.randrange(0, 30)))
        r = rnd.random()
        if r < 0.35:
            pass
        elif r < 0.6 and len(p) > 4:
            i = rnd.randrange(2, len(p))
            p = p[:i] + rnd.choice("0123456789ABCDEFGHIJKLMNOPQRSTUVWXYZ٣٠-_!É߀１") + p[i + 1:]
        elif r < 0.7:
            p = p[:rnd.randrange(0, len(p) + 1)]
        elif r < 0.8:
            p = p + rnd.choice("0A9")
        elif r < 0.9 and len(p) >= 4:
            p = p[:2] + rnd.choice(["00", "01", "99", "98", "02", "97", "A1", "1A"]) + p[4:]
        else:
            p = p[:2] + f"{rnd.randrange(100):02d}" + p[4:]
        if self.cc and p[:2] != self.cc:
            p = self.cc + p[2:]
        if not self.cc and p[:2] in tab:
            p = "XX" + p[2:]
        from schwifty import common
        if common.clean(p) != p:          # the input domain of the task is the cleaned payload
            p = common.clean(p)
            if (p[:2] in tab) != bool(self.cc) or (self.cc and p[:2] != self.cc):
                p = (self.cc or "XX") + "00"
        return {"p": p, "validate_bban": rnd.random() < 0.3}


def native_national(cc, bban):
    """native oracle of the national rule: the sidecar specs of C06 / C07"""
    from contracts import germany as G
    from contracts import national as N
    if cc == "DE":
        from schwifty import registry
        entry = registry.get("bank_code").get(("DE", bban[:8]))
        if not entry:
            return True
        m = entry[0].get("checksum_algo", "default")
        if m in G.EXACT:
            return bool(G.EXACT[m](bban[8:]))
        if m in G.BAND:
            from schwifty.checksum import algorithms
            return bool(T.native_obs(algorithms["DE:" + m].validate, [bban[8:]], "") is True)
        return True
    if cc in N.EXACT:
        return bool(N.EXACT[cc](bban))
    if cc in N.BAND:
        from schwifty import BBAN
        return T.native_obs(lambda: BBAN(cc, bban).validate_national_checksum()) is True
    return True
