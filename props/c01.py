"""C01 - IBAN acceptance is exactly the ISO 13616 rule set over the bundled country table."""
import time


def specs(mode="construct"):
    from props import ibantasks, shared
    tab = ibantasks.table()
    out = [("props.ibantasks", "IbanTask", (cc, mode)) for cc in sorted(tab)]
    out.append(("props.ibantasks", "IbanTask", ("None", mode)))
    if mode == "construct":
        out += [("props.ibantasks", "IbanTask", (cc, "from-object")) for cc in ("DE", "GB", "NO", "None")]
        # the alternate constructor validates like IBAN(...): from_bban over every text of the right / wrong length
        from props import c02
        out += c02.from_bban_flag_specs(["DE", "GB", "NO", "FR", "MT", "BE"])
    out += [("props.shared", "NumerifyTask", (n,)) for n in shared.numerify_lengths()]
    return out


ASSUMPTIONS = [
    "A2 re: the formula compiler (pyvc/rx.py) implements match/fullmatch/$/\\d/\\s of CPython for the live "
    "patterns; differential-tested against CPython on every run (regex selftest), not proved",
    "A3 the input of these tasks is the payload p = Clean(text) with the Base invariant (every character Fix: not "
    "\\s, fixed under upper); that Base.__new__/clean establish it for every text is C10's obligation",
    "contract of BBAN.validate_national_checksum (returns True iff the national rule accepts, else raises "
    "InvalidBBANChecksum) is proved in C06/C07; here it is an opaque predicate NatOK",
    "contract of checksum.numerify (= Num, >= 0) is discharged per length by the NumerifyTask obligations of "
    "this run; callers see Num as an uninterpreted function on the BBAN prefix",
    "registry.get('iban') returns the import-time table (C15/C18)",
]


def rx_selftest():
    """differential test of the regex compiler against CPython on the live patterns (exit 3 on disagreement)"""
    import re
    from pyvc import rx
    from props import ibantasks
    pats = [re.compile(r"[A-Z]{2}\d{2}[A-Z]*"), re.compile(r"[A-Z]{2}\d{2}[A-Z]*", re.ASCII)]
    seen = set()
    for cc, s in ibantasks.table().items():
        r = s.get("regex")
        if isinstance(r, str):
            r = re.compile(r)       # a pattern kept as text: the module-level re functions compile it without flags
        if not isinstance(r, re.Pattern):
            continue
        if (r.pattern, r.flags) not in seen and len(seen) < 40:
            seen.add((r.pattern, r.flags))
            pats.append(r)
    n, bad, diffs = rx.selftest(pats, per_pattern=40)
    return n, bad, diffs


def main(seed, tier):
    from props import common
    t0 = time.time()
    n, bad, diffs = rx_selftest()
    results = common.run_tasks(specs("construct"), seed, tier)
    if bad:
        results.append(dict(task="regex selftest", obligations=[], error=f"checker fault: regex compiler disagrees "
                            f"with CPython on {bad} of {n} cases, e.g. {diffs[:2]}", functions={}, files={}, paths=0))
    return common.finish("C01", results, t0, seed, tier, assumptions=ASSUMPTIONS,
                         extra_cov=dict(countries=len(results), regex_selftest_cases=n, regex_selftest_mismatches=bad),
                         not_proved_note="per country K and for the complement: every path of the real IBAN(p, "
                         "validate_bban=flag) over symbolic-length cleaned text p returns iff Accept_K(p) [and the "
                         "national predicate when flag], each raise names a present defect")
