"""Driver shared by all property checks: run tasks on a process pool, aggregate obligations, apply
KNOWN_FINDINGS.txt, write replay files and evidence, decide the exit code.

exit 0 held / 1 violation / 2 undecided / 3 checker fault.  Never maps unknown, timeout or traceback to a violation.
"""
from __future__ import annotations

import importlib
import json
import multiprocessing as mp
import os
import re
import sys
import time

ROOT = os.path.dirname(os.path.dirname(os.path.abspath(__file__)))
EVIDENCE = os.environ.get("PYVC_EVIDENCE_DIR") or os.path.join(ROOT, "evidence")
REPLAY = os.path.join(ROOT, "replay")
FINDINGS = os.path.join(ROOT, "KNOWN_FINDINGS.txt")

BASE_ASSUMPTIONS = [
    "A1 CPython semantics as modelled by pyvc for the interpreted subset (DESIGN 2.1); Python ints are unbounded, so "
    "integer arithmetic is mathematical, not an assumption",
    "A11 the source files pyvc parses are the files CPython imported in this process (fresh process per run; "
    "sha256 of each file recorded under coverage.files)",
]


def _worker(spec):
    modname, factory, args, seed, tier = spec
    sys.setrecursionlimit(10000)
    from pyvc import task as T
    try:
        mod = importlib.import_module(modname)
        t = getattr(mod, factory)(*args)
        r = T.run(t, seed=seed, tier=tier)
        r["meta"] = getattr(t, "meta", {})
        r["spec"] = [modname, factory, list(args)]
        return r
    except Exception as ex:  # noqa: BLE001
        import traceback
        from pyvc.values import Unsupported
        kind = "unsupported" if isinstance(ex, Unsupported) else f"checker fault: {type(ex).__name__}"
        return dict(task=f"{factory}{args}", obligations=[], error=f"{kind}: {ex}",
                    trace=traceback.format_exc()[-3000:], functions={}, files={}, paths=0, spec_paths=0,
                    crosscheck=0, havoc=[], shared_writes=[], secs=0, solver={}, meta={})


def run_tasks(specs, seed, tier, procs=None):
    procs = procs or min(16, os.cpu_count() or 4)
    specs = [(m, f, a, seed, tier) for (m, f, a) in specs]
    if len(specs) == 1 or procs == 1:
        return [_worker(s) for s in specs]
    ctx = mp.get_context("fork")
    from pyvc import task as T
    # shared count of natively confirmed violations: once a run has enough of them the rest is skipped (undecided)
    T.CONFIRMED_COUNTER = ctx.Value("i", 0)
    T.CAPS_ENABLED = not load_findings()
    with ctx.Pool(procs, maxtasksperchild=8) as pool:
        return pool.map(_worker, specs, chunksize=1)


def load_findings():
    """lines:  finding: property=<id> obligation=<regex> [witness=<regex>]  <free text>
               fixed: property=<id> <commit> <what failed>"""
    out = []
    if not os.path.exists(FINDINGS):
        return out
    for line in open(FINDINGS, encoding="utf-8"):
        line = line.strip()
        if not line.startswith("finding:"):
            continue
        m = re.match(r"finding:\s+property=(\S+)\s+obligation=(\S+)(?:\s+witness=(\S+))?\s*(.*)", line)
        if m:
            out.append(dict(prop=m.group(1), obligation=m.group(2), witness=m.group(3), text=m.group(4), raw=line))
    return out


def match_finding(findings, prop, obl):
    for f in findings:
        if f["prop"] != prop:
            continue
        if not re.search(f["obligation"], obl["name"]):
            continue
        if f["witness"]:
            if not re.search(f["witness"], json.dumps(obl.get("witness"), ensure_ascii=False, default=str)):
                continue
        return f
    return None


def finish(prop, results, t0, seed, tier, level="proof", extra_cov=None, assumptions=(), bounded_parts=(),
           checker_cmd=None, not_proved_note=""):
    """aggregate, write evidence, print verdict lines, return the exit code"""
    os.makedirs(EVIDENCE, exist_ok=True)
    os.makedirs(REPLAY, exist_ok=True)
    findings = load_findings()
    obls = []
    errors = []
    functions, files = {}, {}
    solver = {"z3": 0, "cvc5": 0, "z3_s": 0.0, "cvc5_s": 0.0, "queries": 0}
    paths = crosscheck = 0
    havoc, shared = set(), set()
    for r in results:
        for o in r["obligations"]:
            o = dict(o)
            o["task"] = r["task"]
            o["task_spec"] = r.get("spec")
            obls.append(o)
        if r.get("error"):
            errors.append((r["task"], r["error"], r.get("trace", "")))
        functions.update(r.get("functions", {}))
        files.update(r.get("files", {}))
        paths += r.get("paths", 0)
        crosscheck += r.get("crosscheck", 0)
        havoc.update(tuple(x) for x in r.get("havoc", []))
        shared.update(tuple(x) for x in r.get("shared_writes", []))
        for k, v in r.get("solver", {}).items():
            solver[k] = solver.get(k, 0) + v
    vc = [o for o in obls if o["kind"] != "bounded"]
    discharged = [o for o in vc if o["status"] == "discharged"]
    refuted = [o for o in obls if o["status"] == "refuted"]
    undecided = [o for o in obls if o["status"] == "undecided"]
    violations = []
    known = []
    faults = []
    for o in refuted:
        f = match_finding(findings, prop, o)
        if f is not None:
            known.append((o, f))
            continue
        det = o.get("detail", "")
        if o.get("kind") == "frame" and prop not in ("C14", "C15"):
            # a write to state that outlives the call is a violation of C14/C15 only; for this property it means the
            # engine cannot model the call tree: undecided here (the bounded cross-check still runs)
            o["status"] = "undecided"
            undecided.append(o)
        elif o.get("kind") == "pin":
            # the code moved INSIDE a declared band (where the property cannot be decided offline): neither a
            # violation nor a pass
            o["status"] = "undecided"
            o["backend"] = f"{o['backend']}; verdict differs from the reading pinned at build time, witness {o.get('witness')}"
            undecided.append(o)
        elif det.startswith("NOWITNESS"):
            # refuted only under an abstraction (uninterpreted spec function / opaque input) and no concrete input
            # found: the abstraction may be too coarse, so this is undecided, never a violation
            o["status"] = "undecided"      # a failed structural obligation without a failing input is not a violation
            undecided.append(o)
        elif det.startswith("NOT-CONFIRMED"):
            faults.append(o)
        else:
            violations.append(o)
    lines = []
    for o, f in known:
        lines.append(f"KNOWN-FINDING: property={prop} {o['name']} :: {f['text']}")
    seen_known = set()
    out_lines = []
    for ln in lines:
        if ln not in seen_known:
            seen_known.add(ln)
            out_lines.append(ln)
    for ln in out_lines:
        print(ln)
    rc = 0
    for i, o in enumerate(violations):
        path = os.path.join("replay", f"{prop}-{_slug(o['name'])}.json")
        with open(os.path.join(ROOT, path), "w", encoding="utf-8") as fp:
            json.dump(dict(property=prop, obligation=o["name"], task=o["task"], task_spec=o.get("task_spec"),
                           witness=o.get("witness"),
                           solver_output=dict(status=o["status"], backend=o["backend"], secs=o["secs"]),
                           native_replay=o.get("detail", ""), kind=o["kind"],
                           how_to_replay=f"./check --replay {path}"), fp, indent=1, ensure_ascii=False, default=str)
        tail = "" if o.get("witness") is not None and o.get("detail", "").startswith(("CONFIRMED", "replayed")) \
            else " no-failing-input-found"
        print(f"VIOLATION property={prop} replay={path}{tail}")
        print(f"  obligation: {o['name']}\n  witness: {json.dumps(o.get('witness'), ensure_ascii=False, default=str)[:300]}"
              f"\n  {o.get('detail', '')[:300]}")
        rc = 1
    if rc == 0 and faults:
        for o in faults:
            print(f"CHECKER-FAULT property={prop} obligation refuted by the solver but not confirmed natively: "
                  f"{o['name']} witness={o.get('witness')!r} :: {o.get('detail')}")
        rc = 3
    if rc == 0 and errors:
        for t, e, tr in errors:
            print(f"CHECKER-ERROR property={prop} task={t}: {e}")
            if os.environ.get("PYVC_TRACE"):
                print(tr)
        rc = 3 if any("checker fault" in e for _, e, _ in errors) else 2
    if rc == 0 and undecided:
        for o in undecided:
            print(f"UNDECIDED property={prop} {o['name']} ({o['backend']}, {o['secs']}s)")
        rc = 2
    if rc == 0 and not vc:
        print(f"CHECKER-ERROR property={prop}: zero obligations generated")
        rc = 3
    wall = round(time.time() - t0, 2)
    samples = [dict(name=o["name"], status=o["status"], backend=o["backend"], secs=o["secs"]) for o in vc[:3]]
    samples += [dict(name=o["name"], status=o["status"], witness=o.get("witness"), detail=o.get("detail"))
                for o in refuted[:5]]
    cov = dict(
        obligations=len(vc), discharged=len(discharged),
        checker_cmd=checker_cmd or f"./check {prop} --tier {tier}",
        trusted_base=["z3 5.1.0 (python API)", "cvc5 1.0.3 (CLI, takes z3's unknowns)",
                      "pyvc VC generator (this repository): AST interpreter + encodings", "CPython 3.12 ast/inspect"],
        refuted=len(refuted), undecided=len(undecided), known_findings=len(known),
        by_backend=dict(z3=solver.get("z3", 0), cvc5=solver.get("cvc5", 0),
                        z3_seconds=round(solver.get("z3_s", 0), 2), cvc5_seconds=round(solver.get("cvc5_s", 0), 2)),
        tasks=len(results), task_errors=[f"{t}: {e}" for t, e, _ in errors],
        symbolic_paths=paths,
        functions_under_contract=sorted(f"{k} ({os.path.relpath(v[0], '/repo') if v[0].startswith('/repo') else os.path.basename(v[0])}:{v[1]})"
                                        for k, v in functions.items()),
        files={(os.path.relpath(k, "/repo") if k.startswith("/repo") else k): v for k, v in files.items()},
        scratch_fields_havocked=sorted(f"{a}.{b}" for a, b in havoc),
        shared_writes=sorted({f"{x[0]}.{x[1]} at {x[2]}:{x[3]}" for x in shared}),
        bounded_parts=list(bounded_parts) + [dict(what="native cross-check of the real function against the sidecar spec on "
                                                  "sampled inputs (also guards the encoder); NOT counted as proved",
                                                  samples=crosscheck)],
        samples=samples or [dict(note="no obligations")],
        explanation=not_proved_note,
    )
    if extra_cov:
        cov.update(extra_cov)
    ev = dict(property_id=prop, tier=tier, seed=seed, level=level, coverage=cov,
              assumptions=list(BASE_ASSUMPTIONS) + list(assumptions), wall_s=wall,
              violations=len(violations))
    with open(os.path.join(EVIDENCE, f"{prop}.json"), "w", encoding="utf-8") as fp:
        json.dump(ev, fp, indent=1, ensure_ascii=False, default=str)
    print(f"{prop}: {len(discharged)}/{len(vc)} obligations discharged, {len(refuted)} refuted "
          f"({len(known)} known findings), {len(undecided)} undecided, {len(errors)} task errors, "
          f"{paths} symbolic paths, {wall}s -> exit {rc}")
    return rc


def _slug(s):
    return re.sub(r"[^A-Za-z0-9]+", "-", s)[:80].strip("-")
