"""C15 - results depend only on arguments and bundled data, never on call history.

 (i)   write frames: every call tree writes only to objects allocated in the call or to per-thread scratch fields
       (pyvc write log over all symbolic paths);
 (ii)  every functional contract of the call trees is proved with the scratch fields HAVOCKED at entry (reads of a
       scratch field not yet written in the call return an arbitrary value) and with functools.lru_cache modelled as
       "fresh result or the result of an earlier call with an equal key" - so the verdicts provably do not depend on
       earlier calls, including failed ones;
 (iii) bounded native confirmation: a fixed list of calls is evaluated in three fresh processes under different
       histories (order, reversed order, shuffled with repetitions) and the per-call outcomes are compared; a
       snapshot of the library's process-wide state (registries, algorithm objects, module-level containers) is
       compared before and after."""
from __future__ import annotations

import json
import os
import subprocess
import sys
import time

HISTORY_SCRIPT = r'''
import json, sys, random, hashlib
sys.setrecursionlimit(10000)
mode = sys.argv[1]
from schwifty import IBAN, BIC, BBAN, registry
from schwifty.checksum import algorithms
import schwifty

def snapshot():
    """(core, aux): core = the bundled data in effect (registries, algorithm objects); aux = other module-level
    containers (memo tables ...).  A call that changes core has modified what later results are computed from; a
    change of aux alone is harmless unless some outcome differs (that is what the histories compare)."""
    h = hashlib.sha256()
    for name in sorted(registry._registry, key=str):
        h.update(repr(name).encode())
        v = registry._registry[name]
        if isinstance(v, dict):
            for k in v:
                h.update(repr(k).encode()); h.update(repr(v[k] if not isinstance(v[k], dict) else sorted((a, repr(b)) for a, b in v[k].items())).encode())
        else:
            h.update(repr(v).encode())
    for k in sorted(algorithms):
        h.update(k.encode()); h.update(repr(sorted((a, repr(b)) for a, b in vars(algorithms[k]).items() if a != "_scratch")).encode())
    g2 = hashlib.sha256()
    for mname in sorted(m for m in sys.modules if m.startswith("schwifty")):
        mod = sys.modules[mname]
        for g in sorted(vars(mod)):
            v = vars(mod)[g]
            if isinstance(v, (dict, list, set)) and not g.startswith("__") and g not in ("_registry", "algorithms"):
                g2.update((mname + "." + g + repr(v)[:100000]).encode())
    return h.hexdigest(), g2.hexdigest()

def call(spec):
    kind = spec[0]
    try:
        if kind == "iban": r = str(IBAN(spec[1], validate_bban=spec[2]))
        elif kind == "valid": r = IBAN(spec[1], allow_invalid=True).is_valid
        elif kind == "bic": r = str(BIC(spec[1], enforce_swift_compliance=spec[2]))
        elif kind == "gen": r = str(IBAN.generate(spec[1], bank_code=spec[2], account_code=spec[3]))
        elif kind == "rand": r = str(IBAN.random(spec[1], random=random.Random(spec[2]), use_registry=spec[3]))
        elif kind == "lookup": r = [str(b) for b in BIC.candidates_from_bank_code(spec[1], spec[2])]
        elif kind == "frombank": r = str(BIC.from_bank_code(spec[1], spec[2]))
        elif kind == "bankof":
            x = IBAN(spec[1], allow_invalid=True); r = [x.bank_name, str(x.bic), x.bank and x.bank.get("bank_code")]
        elif kind == "fields":
            x = IBAN(spec[1], allow_invalid=True)
            r = [x.bank_code, x.branch_code, x.account_code, x.national_checksum_digits, x.account_type, str(x.bic), x.bank_name]
        elif kind == "algo": r = algorithms[spec[1]].validate([spec[2]], "")
        elif kind == "natl": r = BBAN(spec[1], spec[2]).validate_national_checksum()
        else: r = "?"
        return ["ok", r]
    except Exception as ex:
        return ["raise", type(ex).__name__]

calls = json.load(open(sys.argv[2]))
if mode == "alone":
    # every call on pristine state: a forked child per call (copy-on-write image of the freshly imported library)
    import os
    out = {}
    for i, spec in enumerate(calls):
        r, w = os.pipe()
        pid = os.fork()
        if pid == 0:
            os.close(r)
            try:
                data = json.dumps(call(spec)).encode()
            except BaseException as ex:
                data = json.dumps(["crash", type(ex).__name__]).encode()
            os.write(w, data)
            os._exit(0)
        os.close(w)
        buf = b""
        while True:
            chunk = os.read(r, 65536)
            if not chunk:
                break
            buf += chunk
        os.close(r)
        os.waitpid(pid, 0)
        out[str(i)] = json.loads(buf.decode()) if buf else ["crash", "no output"]
    out["__state_changed__"] = False
    out["__aux_changed__"] = False
    print(json.dumps(out))
    sys.exit(0)
order = list(range(len(calls)))
if mode == "reversed": order.reverse()
elif mode == "shuffled":
    random.Random(7).shuffle(order); order = order + order[: len(order) // 2] + order
s0 = snapshot()
out = {}
first = {}
for i in order:
    r = call(calls[i])
    if i in first and first[i] != r:
        out.setdefault("__unstable__", []).append([i, first[i], r])
    first.setdefault(i, r)
    out[str(i)] = r
s1 = snapshot()
out["__state_changed__"] = (s1[0] != s0[0])
out["__aux_changed__"] = (s1[1] != s0[1])
print(json.dumps(out))
'''


def IBAN_random(cc, rnd):
    """a BBAN text of country cc (any text would do: the histories are compared with each other, not with a spec)"""
    import random as _r
    from schwifty import IBAN
    return IBAN.random(cc, random=_r.Random(rnd.randrange(10 ** 6)), use_registry=True).bban


def call_list(seed):
    import random
    from contracts import common as CC
    from props.ibantasks import IbanTask, table
    rnd = random.Random(seed + 11)
    calls = []
    ccs = sorted(table())
    for cc in ccs[::3] + ["DE", "ES", "EE", "NO", "IT", "PL", "CZ", "DK", "FO", "GL"]:
        t = IbanTask(cc)
        for _ in range(2):
            s = t.sample(rnd)
            calls.append(["iban", s["p"], bool(s["validate_bban"])])
            calls.append(["valid", s["p"]])
    # the same BBAN text under several countries that share a structure; repeated national computations
    for b in ("00400440116243", "12345678901234"):
        for cc in ("DK", "FO", "GL"):
            k = 98 - (CC.Num(b + cc) * 100) % 97
            calls.append(["iban", f"{cc}{k:02d}{b}", False])
            calls.append(["iban", f"{cc}{(k + 1) % 100:02d}{b}", False])
    for iban in ("EE382200221020145685", "EE471000001020145685", "ES9121000418450200051332", "NO9386011117947",
                 "BE68539007547034", "FI2112345600000785", "IT60X0542811101000000123456", "PL61109010140000071219812874"):
        calls += [["iban", iban, True], ["iban", iban, True], ["natl", iban[:2], iban[4:]]]
    for m, a in (("DE:16", "4497144122"), ("DE:16", "0109900011"), ("DE:25", "6888784125"), ("DE:25", "8871378905"),
                 ("DE:02", "0939900009"), ("DE:02", "3280387012"), ("DE:00", "9290701"), ("DE:24", "6605971578"),
                 ("DE:88", "0012525259"), ("DE:88", "0090013000"), ("DE:88", "0012525259"), ("DE:88", "0099913003"),
                 ("DE:21", "0000000000"), ("DE:13", "0532013000"), ("DE:68", "8889654328")):
        calls.append(["algo", m, a.zfill(10)])
    # the same account number under EVERY German method, back to back (a memo shared between method objects and keyed
    # by digits / weights only hands one method's intermediate result to another: round 6, C07)
    from schwifty.checksum import algorithms as _algos
    for a in ("0568975319", "9999999999", "5060708090", "0000123456"):
        for m in sorted(k for k in _algos if k.startswith("DE:")):
            calls.append(["algo", m, a])
    for b in ("GENODEM1GLS", "GENODEM1GL!", "DEUTDEFF", "AAAAXX22", "1234DEWWXXX"):
        calls += [["bic", b, False], ["bic", b, True]]
    # near-miss siblings of accepted texts: one character replaced by a foreign one (non-ASCII digit / letter of the
    # same str.isalnum()/isdigit() class, punctuation), right after the accepted text and - in the reversed history -
    # right before it.  A memo keyed by PART of a text (the BIC8, the bank code, the country prefix) lets a sibling
    # ride on an earlier acceptance whenever its fast path checks less than the full path (round 6, C04).
    foreign = ["\u0663", "\uff11", "\u00c4", "!"]
    for good in ("DEUTDEFF", "GENODEM1GLS", "MARKDEF1100"):
        base = good if len(good) == 11 else good + "500"
        for flag in (False, True):
            calls.append(["bic", good, flag])
            for pos in (0, 4, 6, 8, 9, 10):
                for ch in foreign:
                    calls.append(["bic", base[:pos] + ch + base[pos + 1:], flag])
            calls.append(["bic", good, flag])
    for good in ("DE89370400440532013000", "GB29NWBK60161331926819", "NO9386011117947", "FR1420041010050500013M02606"):
        calls.append(["iban", good, True])
        for pos in (0, 2, 4, len(good) // 2, len(good) - 1):
            for ch in foreign[:3]:
                calls.append(["iban", good[:pos] + ch + good[pos + 1:], True])
        calls.append(["iban", good, True])
    calls += [["gen", "DE", "37040044", "532013000"], ["gen", "DE", "3704004-", "1"], ["gen", "ES", "2100", "200051332"],
              ["gen", "NO", "8601", "111794"], ["gen", "XX", "1", "2"], ["gen", "PL", "10901014", "0000071219812874"]]
    # countries that share a structure string but publish different positions, in both orders (caches keyed too coarsely)
    tab = table()
    groups = {}
    for cc in ccs:
        if "positions" in tab[cc]:
            groups.setdefault(tab[cc]["bban_spec"], []).append(cc)
    for spec_str, members in sorted(groups.items()):
        if len(members) > 1 and len({json.dumps(tab[m]["positions"], sort_keys=True) for m in members}) > 1:
            for m in members[:3] + members[:3][::-1]:
                w = tab[m]["positions"]
                bank = "1" * (w.get("bank_code", [0, 0])[1] - w.get("bank_code", [0, 0])[0])
                acct = "2" * (w.get("account_code", [0, 0])[1] - w.get("account_code", [0, 0])[0])
                calls.append(["gen", m, bank, acct])
    from schwifty import registry as _registry
    bankless = [cc for cc in ccs if cc not in _registry.get("country") and "positions" in tab[cc]][:3]
    for cc in ["DE", "PL", "SI", "GB", "NO", "FR", ""] + bankless + [""]:
        for sd in (1, 2):
            calls += [["rand", cc, sd, True], ["rand", cc, sd, False]]
    # component accessors of every country (reads with defaults on sparse table entries), around seeded generation
    for cc in ccs:
        t = IbanTask(cc)
        s = t.sample(rnd)
        bare = "positions" not in tab[cc]
        if bare:
            calls.append(["rand", cc, 5, False])
        calls.append(["fields", s["p"]])
        if bare:
            calls += [["rand", cc, 5, False], ["iban", s["p"], False]]
    # the same BBAN text under every country of equal BBAN length and character classes (different layouts, national
    # rules and bank tables): memo tables keyed by the text alone make these calls depend on their order
    by_shape = {}
    for cc in ccs:
        by_shape.setdefault(tuple(CC.classes(tab[cc]["bban_spec"])), []).append(cc)
    n_pairs = 0
    for shape, members in sorted(by_shape.items(), key=lambda kv: (-len(kv[1]), kv[0])):
        if len(members) < 2 or n_pairs > 60:
            continue
        texts = []
        for a in members[:6]:
            try:
                texts.append(str(IBAN_random(a, rnd)))
            except Exception:  # noqa: BLE001
                pass
        for t in texts[:3]:
            for b in members[:6]:
                k = 98 - (CC.Num(t + b) * 100) % 97
                calls += [["natl", b, t], ["fields", f"{b}{k:02d}{t}"], ["iban", f"{b}{k:02d}{t}", True]]
                n_pairs += 1
    # registry keys longer than the bank code (bic_lookup_components: PL, SI ...): IBANs of two keys that share the bank
    # code part, looked up one after the other (memo tables keyed by the bank code alone)
    idx = _registry.get("bank_code")
    for cc in ccs:
        fields = tab[cc].get("bic_lookup_components")
        if not fields or len(fields) < 2:
            continue
        pos = tab[cc].get("positions", {})
        w0 = pos.get(fields[0], [0, 0])
        w0 = w0[1] - w0[0]
        groups = {}
        for (c2, code) in idx:
            if c2 == cc and len(code) > w0:
                groups.setdefault(code[:w0], []).append(code)
        n_g = 0
        for head, codes in sorted(groups.items()):
            if len(codes) < 2 or n_g >= 3:
                continue
            n_g += 1
            for code in codes[:3]:
                cl = CC.classes(tab[cc]["bban_spec"])
                bban = ["A" if k == "a" else "0" for k in cl]
                off = 0
                for f in fields:
                    a, b = pos.get(f, [0, 0])
                    bban[a:b] = code[off:off + (b - a)]
                    off += b - a
                if off != len(code):
                    continue
                t_ = "".join(bban)
                k = 98 - (CC.Num(t_ + cc) * 100) % 97
                calls.append(["fields", f"{cc}{k:02d}{t_}"])
    calls += [["lookup", "DE", "43060967"], ["lookup", "DE", "01010101"], ["frombank", "FR", "30004"],
              ["frombank", "PL", "10100055"], ["bankof", "DE89370400440532013000"], ["bankof", "PL61109010140000071219812874"]]
    return calls


def native_history(seed):
    calls = call_list(seed)
    import tempfile
    import schwifty
    root = os.path.dirname(os.path.dirname(schwifty.__file__))
    with tempfile.NamedTemporaryFile("w", suffix=".json", delete=False) as fp:
        json.dump(calls, fp)
        path = fp.name
    outs = {}
    try:
        for mode in ("alone", "inorder", "reversed", "shuffled"):
            r = subprocess.run([sys.executable, "-c", HISTORY_SCRIPT, mode, path], capture_output=True, text=True,
                               timeout=600, env=dict(os.environ, PYTHONPATH=root + os.pathsep + os.environ.get("PYTHONPATH", "")))
            if r.returncode != 0:
                return calls, None, f"history process failed: {r.stderr[-400:]}"
            outs[mode] = json.loads(r.stdout.strip().splitlines()[-1])
    finally:
        os.unlink(path)
    problems = []
    for i in range(len(calls)):
        vals = {m: outs[m].get(str(i)) for m in outs}
        if len({json.dumps(v) for v in vals.values()}) > 1:
            problems.append(dict(call=calls[i], outcomes=vals))
    for m in outs:
        for u in outs[m].get("__unstable__", []):
            problems.append(dict(call=calls[u[0]], outcomes={"first": u[1], "later in the same process": u[2]}, history=m))
        if outs[m].get("__state_changed__"):
            problems.append(dict(call="(whole sequence)", outcomes={m: "the calls changed the registries / algorithm objects "
                                                                       "(the bundled data in effect) of the process"}))
    native_history.aux_changed = any(outs[m].get("__aux_changed__") for m in outs)
    return calls, problems, ""


class HistoryReplay:
    def native_agree(self, wit):
        calls, problems, err = native_history(0)
        return not problems, problems[:1], "identical outcomes under every history"


def main(seed, tier):
    from props import c14, common
    t0 = time.time()
    results = common.run_tasks(c14.base_specs(), seed, tier)
    frame = []
    for r in results:
        if r.get("error"):
            continue
        sw = [tuple(x) for x in r.get("shared_writes", [])]
        frame.append(dict(name=f"{r['task']}: no write to registries, arguments, earlier objects or shared objects",
                          kind="vc", status="discharged" if not sw else "refuted", backend="pyvc write log (all paths)",
                          secs=0.0, witness={"writes": [f"{x[0]}.{x[1]} at {x[2]} ({x[4]}:{x[5]})" for x in sw]} if sw else None,
                          detail="" if not sw else "replayed natively: see bounded history run", ))
    calls, problems, err = native_history(seed)
    hist = []
    if problems is None:
        results.append(dict(task="native history run", obligations=[], functions={}, files={}, paths=0,
                            error=f"checker fault: {err}", spec=None))
    else:
        hist.append(dict(name=f"{len(calls)} calls give the outcome they give ALONE (each on pristine state, forked) under three histories in fresh processes and "
                              "leave the process-wide state unchanged (bounded)", kind="bounded",
                         status="discharged" if not problems else "refuted", backend="cpython (alone-per-call forks + 3 fresh processes)", secs=0.0,
                         witness=problems[0] if problems else None,
                         detail="" if not problems else f"replayed natively: {json.dumps(problems[0])[:500]}"))
    results.append(dict(task="frames and history", obligations=frame + hist, functions={}, files={}, paths=0, error=None,
                        spec=["props.c15", "HistoryReplay", []]))
    return common.finish(
        "C15", results, t0, seed, tier,
        assumptions=["scratch fields of the shared algorithm objects (incl. their threading.local storage) and "
                     "functools.lru_cache are the only carriers of history the model knows: both are over-approximated "
                     "(havoc on read-before-write; cache hit = result of an arbitrary earlier call with an equal key); "
                     "a module-level container written by a call is a frame violation",
                     "registry.get(name) is only called with names populated at import, so its lazy-load branch "
                     "(the one writer of registry._registry) is not reached after import (checked: has(name) at run time)",
                     "the call trees are those of C14's task list; the bounded history run covers validation, generation, "
                     "seeded random generation, lookups and failing calls"],
        extra_cov=dict(history_calls=len(calls), history_modes=["alone (one forked pristine process image per call)", "inorder", "reversed",
                                                               "shuffled with repetitions"],
                       module_level_memo_changed=bool(getattr(native_history, "aux_changed", False)),
                       bounded_parts=[dict(what="native history run: every call alone vs in 3 histories", calls=len(calls))]),
        not_proved_note="functional contracts of the call trees proved under havocked scratch state and cache oracle + "
                        "write frames; bounded native history comparison")
