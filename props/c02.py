"""C02 - IBAN check digits are computed correctly, uniquely and canonically."""
from __future__ import annotations

import time

import z3

from contracts import common as CC
from contracts import iban as S
from pyvc import task as T
from pyvc.values import SBool, SObj, SStr, lift_str, payload


def _contracts(L):
    return {"schwifty.common.clean": CC.clean_contract,
            "schwifty.checksum.numerify": CC.make_numerify_contract(L),
            "contracts.common.Num": CC.make_num_spec_contract(L)}


class FromBbanTask(T.Task):
    """IBAN.from_bban(K, b) for every structure-conforming BBAN b: returns (never raises) the IBAN K + dd + b whose
    dd are the canonical digits, 02 <= dd <= 98"""

    def __init__(self, cc):
        from props.ibantasks import table
        self.cc = cc
        self.name = f"IBAN.from_bban[{cc}]"
        self.L = table()[cc]["bban_length"]
        self.contracts = _contracts(self.L)

    def setup(self, I):
        b, self.cl = CC.sym_bban(I, self.cc)
        return {"b": b}

    def code(self, I, inp):
        from schwifty import IBAN
        return I.call(I.getattr(IBAN, "from_bban"), [self.cc, inp["b"]], {})

    def observe(self, I, path):
        o = T.std_observe(path)
        if isinstance(o, SObj):
            return ("IBAN", payload(o))
        return o

    def custom_obligations(self, I, inp, code_paths, cobs):
        b = inp["b"].chars
        out = []
        k = 98 - (CC.num_term(I, list(b) + [z3.IntVal(ord(c)) for c in self.cc], self.L) * 100) % 97
        for i, (path, o) in enumerate(cobs):
            pc = path["pc"]
            if isinstance(o, T.Escape):
                continue
            if isinstance(o, tuple) and o[0] == "IBAN":
                s = lift_str(o[1]).chars
                if len(s) != self.L + 4:
                    out.append((f"path {i}: result has the country's IBAN length", pc, z3.BoolVal(False)))
                    continue
                out.append((f"path {i}: result = country code + canonical digits + the given BBAN", pc, z3.And(
                    s[0] == ord(self.cc[0]), s[1] == ord(self.cc[1]),
                    CC.z_digit(s[2]), CC.z_digit(s[3]), (s[2] - 48) * 10 + (s[3] - 48) == k,
                    *[x == y for x, y in zip(s[4:], b)])))
                out.append((f"path {i}: computed digits lie in 02..98", pc,
                            z3.And((s[2] - 48) * 10 + (s[3] - 48) >= 2, (s[2] - 48) * 10 + (s[3] - 48) <= 98)))
            else:
                out.append((f"path {i}: from_bban of a structure-conforming BBAN does not raise ({o!r})", pc,
                            z3.BoolVal(False)))
        return out

    def native_code(self, inp):
        from schwifty import IBAN
        o = T.native_obs(lambda: str(IBAN.from_bban(self.cc, inp["b"])))
        return o

    def native_agree(self, inp):
        c = self.native_code(inp)
        k = 98 - (CC.Num(inp["b"] + self.cc) * 100) % 97
        exp = f"{self.cc}{k:02d}{inp['b']}"
        return c == exp and 2 <= k <= 98, c, exp

    def sample(self, rnd):
        return {"b": "".join(rnd.choice({"n": "0123456789", "a": "ABCDEFGHIJKLMNOPQRSTUVWXYZ",
                                         "c": "0123456789ABCDEFGHIJKLMNOPQRSTUVWXYZ"}[k]) for k in self.cl)}


class FromBbanFlagTask(T.Task):
    """IBAN.from_bban(K, b, validate_bban=flag) for EVERY clean text b of length n (n = L-1, L, L+1; any characters)
    and both values of the flag: returns exactly when b fits the country's structure [and, with the flag, the national
    rule accepts it]; the result is K + canonical digits + b; anything else is a library exception naming a present
    defect - the alternate constructor validates like IBAN(...) and threads the flag."""
    crosscheck_samples = 150

    def __init__(self, cc, n):
        from props.ibantasks import national_contract, table
        self.cc, self.n = cc, int(n)
        self.L = table()[cc]["bban_length"]
        self.cl = tuple(CC.classes(table()[cc]["bban_spec"]))
        self.name = f"IBAN.from_bban[{cc}, len(b)={self.n}{'' if self.n == self.L else ' (wrong length)'}, validate_bban=flag]"
        self.contracts = _contracts(self.L)
        self.contracts["schwifty.checksum.numerify"] = CC.make_raising_numerify_contract(self.L)
        self.contracts["schwifty.bban.BBAN.validate_national_checksum"] = national_contract

    def setup(self, I):
        b = [z3.Int(f"b{i}") for i in range(self.n)]
        for x in b:
            I.assumptions += [CC.Fix(x), CC.fix_facts(x)]
        return {"b": SStr(b), "validate_bban": SBool(z3.Bool("validate_bban"))}

    def code(self, I, inp):
        from schwifty import IBAN
        return I.call(I.getattr(IBAN, "from_bban"), [self.cc, inp["b"]], {"validate_bban": inp["validate_bban"]})

    def observe(self, I, path):
        o = T.std_observe(path)
        if isinstance(o, SObj):
            return ("IBAN", payload(o))
        return o

    def custom_obligations(self, I, inp, code_paths, cobs):
        from props.ibantasks import LIB, nat_ok
        b = inp["b"].chars
        flag = inp["validate_bban"].t
        fits = z3.And(z3.BoolVal(self.n == self.L), *[CC.CLS[k](c) for k, c in zip(self.cl, b)]) if self.n == self.L \
            else z3.BoolVal(False)
        nat = nat_ok(self.cc, list(b)) if self.n == self.L else z3.BoolVal(True)
        full = z3.And(fits, z3.Implies(flag, nat))
        out = []
        for i, (path, o) in enumerate(cobs):
            pc = path["pc"]
            if isinstance(o, T.Escape):
                continue
            if isinstance(o, tuple) and o[0] == "IBAN":
                s = lift_str(o[1]).chars
                out.append((f"path {i}: returns => b fits the structure" + (" and (flag => national rule)"), pc, full))
                if len(s) == self.L + 4 and self.n == self.L:
                    k = 98 - (CC.num_term(I, list(b) + [z3.IntVal(ord(c)) for c in self.cc], self.L) * 100) % 97
                    out.append((f"path {i}: result = country code + canonical digits + b", pc, z3.And(
                        s[0] == ord(self.cc[0]), s[1] == ord(self.cc[1]), CC.z_digit(s[2]), CC.z_digit(s[3]),
                        (s[2] - 48) * 10 + (s[3] - 48) == k, *[x == y for x, y in zip(s[4:], b)])))
            elif isinstance(o, T.ExcTag) and o.name in LIB:
                out.append((f"path {i}: raises {o.name} => not (b fits [and national rule])", pc, z3.Not(full)))
                if o.name in ("InvalidBBANChecksum", "InvalidAccountCode"):
                    out.append((f"path {i}: raises {o.name} => structure fine, flag set, national rule rejects", pc,
                                z3.And(fits, flag, z3.Not(nat))))
                if o.name == "InvalidLength":
                    out.append((f"path {i}: raises InvalidLength => wrong length", pc, z3.BoolVal(self.n != self.L)))
            else:
                out.append((f"path {i}: outcome {o!r} is not an admitted outcome", pc, z3.BoolVal(False)))
        return out

    def native_code(self, inp):
        from schwifty import IBAN
        o = T.native_obs(lambda: str(IBAN.from_bban(self.cc, inp["b"], validate_bban=inp["validate_bban"])))
        return o

    def native_agree(self, inp):
        from props.ibantasks import native_national
        b = inp["b"]
        c = self.native_code(inp)
        alpha = {"n": "0123456789", "a": "ABCDEFGHIJKLMNOPQRSTUVWXYZ", "c": "0123456789ABCDEFGHIJKLMNOPQRSTUVWXYZ"}
        fits = len(b) == self.L and all(ch in alpha[k] for k, ch in zip(self.cl, b))
        nat = native_national(self.cc, b) if (fits and inp["validate_bban"]) else True
        full = fits and nat
        if isinstance(c, str):
            k = 98 - (CC.Num(b + self.cc) * 100) % 97 if fits else -1
            return full and c == f"{self.cc}{k:02d}{b}", c, f"fits={fits} national={nat}"
        if isinstance(c, T.ExcTag):
            return not full, c, f"fits={fits} national={nat}"
        return False, c, "a return or a library exception"

    def sample(self, rnd):
        alpha = {"n": "0123456789", "a": "ABCDEFGHIJKLMNOPQRSTUVWXYZ", "c": "0123456789ABCDEFGHIJKLMNOPQRSTUVWXYZ"}
        cl = (list(self.cl) + ["n", "n"])[: self.n]
        b = "".join(rnd.choice(alpha[k]) for k in cl)
        # half of the samples sit at a LISTED bank (its method / national rule applies; random bank codes are mostly
        # unlisted, where national validation accepts everything)
        codes = getattr(self, "_codes", None)
        if codes is None:
            from props.ibantasks import table
            from schwifty import registry
            a, e = table()[self.cc].get("positions", {}).get("bank_code", [0, 0])
            codes = self._codes = sorted({x["bank_code"] for x in registry.get("bank")
                                          if x["country_code"] == self.cc and len(x.get("bank_code") or "") == e - a and e > a})
            self._bank_at = a
        if codes and rnd.random() < 0.5 and self.n == self.L:
            c_ = rnd.choice(codes)
            b = b[: self._bank_at] + c_ + b[self._bank_at + len(c_):]
        if rnd.random() < 0.3 and b:
            i = rnd.randrange(len(b))
            b = b[:i] + rnd.choice("-_!\u0663A0z") .upper() + b[i + 1:]
        return {"b": b, "validate_bban": rnd.random() < 0.6}


def from_bban_flag_specs(ccs):
    from props.ibantasks import table
    out = []
    for cc in ccs:
        L = table()[cc]["bban_length"]
        out += [("props.c02", "FromBbanFlagTask", (cc, n)) for n in (L - 1, L, L + 1)]
    return out


class DigitPairTask(T.Task):
    """IBAN(K + xy + b) for every structure-conforming b and every digit pair xy: accepted iff xy are the computed
    digits; in particular the aliases 00, 01, 99 are never accepted"""

    def __init__(self, cc, via_object=""):
        from props.ibantasks import table
        self.cc = cc
        self.via_object = bool(via_object)
        self.name = f"IBAN check digit pairs[{cc}]" + (" through an unvalidated IBAN object" if self.via_object else "")
        self.L = table()[cc]["bban_length"]
        self.contracts = _contracts(self.L)
        from props.ibantasks import national_contract
        self.contracts["schwifty.bban.BBAN.validate_national_checksum"] = national_contract

    def setup(self, I):
        b, self.cl = CC.sym_bban(I, self.cc)
        x, y = z3.Int("x"), z3.Int("y")
        for d in (x, y):
            I.assumptions += [CC.z_digit(d), CC.Fix(d)]
            I.domains[d.decl().name()] = CC.DOMAIN["n"]
        return {"b": b, "dd": SStr([x, y]), "validate_bban": SBool(z3.Bool("validate_bban"))}

    def code(self, I, inp):
        from schwifty import IBAN
        text = SStr([z3.IntVal(ord(c)) for c in self.cc] + inp["dd"].chars + inp["b"].chars)
        # with or without national validation: the pair must be the computed one either way
        if self.via_object:
            text = I.call(IBAN, [text], {"allow_invalid": True})       # an object where text is expected
        return I.call(IBAN, [text], {"validate_bban": inp["validate_bban"]})

    def observe(self, I, path):
        o = T.std_observe(path)
        return "ACCEPT" if isinstance(o, SObj) else o

    def custom_obligations(self, I, inp, code_paths, cobs):
        b = inp["b"].chars
        x, y = inp["dd"].chars
        dd = (x - 48) * 10 + (y - 48)
        k = 98 - (CC.num_term(I, list(b) + [z3.IntVal(ord(c)) for c in self.cc], self.L) * 100) % 97
        out = []
        for i, (path, o) in enumerate(cobs):
            pc = path["pc"]
            if isinstance(o, T.Escape):
                continue
            if o == "ACCEPT":
                out.append((f"path {i}: accepted => the pair is the computed one", pc, dd == k))
                out.append((f"path {i}: accepted => the pair is none of the aliases 00, 01, 99", pc,
                            z3.And(dd != 0, dd != 1, dd != 99)))
            elif isinstance(o, T.ExcTag) and o.name == "InvalidChecksumDigits":
                out.append((f"path {i}: rejected as InvalidChecksumDigits => the pair is not the computed one", pc,
                            dd != k))
            elif isinstance(o, T.ExcTag) and o.name in ("InvalidBBANChecksum", "InvalidAccountCode"):
                out.append((f"path {i}: a national rejection happens only with the flag set and the computed pair", pc,
                            z3.And(inp["validate_bban"].t, dd == k)))
            else:
                out.append((f"path {i}: outcome {o!r} not admitted for a structure-conforming text", pc,
                            z3.BoolVal(False)))
        return out

    def native_code(self, inp):
        from schwifty import IBAN
        text = self.cc + inp["dd"] + inp["b"]
        o = T.native_obs(lambda: IBAN(IBAN(text, allow_invalid=True) if self.via_object else text,
                                      validate_bban=bool(inp.get("validate_bban"))))
        return "ACCEPT" if not isinstance(o, (T.ExcTag, T.Escape)) else o

    def native_agree(self, inp):
        c = self.native_code(inp)
        k = 98 - (CC.Num(inp["b"] + self.cc) * 100) % 97
        want = "ACCEPT" if int(inp["dd"]) == k else T.ExcTag("InvalidChecksumDigits")
        if inp.get("validate_bban") and int(inp["dd"]) == k and isinstance(c, T.ExcTag) and \
                c.name in ("InvalidBBANChecksum", "InvalidAccountCode"):
            return True, c, "computed pair, national rule rejects"
        return c == want, c, want

    def sample(self, rnd):
        b = "".join(rnd.choice({"n": "0123456789", "a": "ABCDEFGHIJKLMNOPQRSTUVWXYZ",
                                "c": "0123456789ABCDEFGHIJKLMNOPQRSTUVWXYZ"}[k]) for k in self.cl)
        k = 98 - (CC.Num(b + self.cc) * 100) % 97
        r = rnd.random()
        if r < 0.3:
            dd = f"{k:02d}"
        elif r < 0.6:
            dd = f"{(k + 97) % 100 if k + 97 < 100 or k - 97 >= 0 else k:02d}" if k in (1, 2, 98) else rnd.choice(["00", "01", "99"])
        else:
            dd = f"{rnd.randrange(100):02d}"
        return {"b": b, "dd": dd, "validate_bban": rnd.random() < 0.4}


def main(seed, tier):
    from props import common, ibantasks, shared
    t0 = time.time()
    ccs = sorted(ibantasks.table())
    specs = [("props.c02", "FromBbanTask", (cc,)) for cc in ccs] + [("props.c02", "DigitPairTask", (cc,)) for cc in ccs]
    specs += [("props.c02", "DigitPairTask", (cc, "via-object")) for cc in ("DE", "GB", "NO", "MT")]
    specs += [("props.shared", "NumerifyTask", (n,)) for n in shared.numerify_lengths()]
    results = common.run_tasks(specs, seed, tier)
    from props.c01 import ASSUMPTIONS
    return common.finish("C02", results, t0, seed, tier, assumptions=ASSUMPTIONS,
                         extra_cov=dict(countries=len(ccs)),
                         not_proved_note="per country: from_bban(K,b) returns K+dd+b with the canonical dd in 02..98 and "
                         "never raises; IBAN(K+xy+b) is accepted iff xy = dd (uniqueness; aliases 00/01/99 rejected)")
