"""C13 - random generation is always valid, honours pinned fields, and is reproducible."""
from __future__ import annotations

import json
import os
import random as _random
import re
import subprocess
import sys
import time

import z3

from contracts import common as CC
from pyvc import rx, task as T
from pyvc.values import Raised, SBool, SObj, SStr, Unsupported, lift_str, payload

ALLOWED_EXTERNAL = {"rstr.xeger.Xeger", "rstr.rstr_base.RstrBase", "rstr.Rstr", "rstr.xeger.Rstr"}


class OracleRandom(_random.Random):
    """stands for the caller's generator: every draw is an arbitrary admissible value (assumed contracts:
    Random.choice(xs) returns a member of xs; Rstr.xeger(p) returns a full match of p drawn with this generator)"""


class RandomTask(T.Task):
    """BBAN.random(cc, random=<oracle>, use_registry=flag, **pins) - one generic iteration of the retry loop"""
    crosscheck_samples = 40
    skip_cover = True      # oracle variables (draws) make the path-cover sanity check meaningless

    def __init__(self, cc, use_registry, pins):
        from props.c06 import get_index_contract, luhn_contract
        from props.ibantasks import table
        self.nocountry = cc.startswith("?")
        cc = cc.lstrip("?")
        self.cc = cc
        self.use_registry = str(use_registry) in ("1", "True", "true")
        self.pins = tuple(p for p in (pins.split(",") if isinstance(pins, str) else pins) if p)
        self.name = f"BBAN.random[{'no country -> ' if self.nocountry else ''}{cc}, use_registry={self.use_registry}, " \
                    f"pinned={list(self.pins)}]"
        self.entry = table()[cc]
        self.L = self.entry["bban_length"]
        self.cls = tuple(CC.classes(self.entry["bban_spec"]))
        self.contracts = {"schwifty.common.clean": CC.clean_contract,
                          "schwifty.checksum.numerify": CC.make_numerify_contract(("iban", self.L)),
                          "schwifty.checksum.italy.get_index": get_index_contract,
                          "schwifty.checksum.luhn": luhn_contract}

    def field(self, name):
        a, e = self.entry.get("positions", {}).get(name, [0, 0])
        return a, e

    def lookup_fields(self):
        return self.entry.get("bic_lookup_components", ["bank_code"])

    def setup(self, I):
        I.loop_generic = {"BBAN.random"}
        I.name_vector_chars = True
        inp = {}
        for p in self.pins:
            a, e = self.field(p)
            chars = [z3.Int(f"pin_{p}_{i}") for i in range(e - a)]
            for c, k in zip(chars, self.cls[a:e]):
                I.assumptions += [CC.CLS[k](c), CC.Fix(c)]
                I.domains[c.decl().name()] = CC.DOMAIN[k]
            inp[p] = SStr(chars)
        task = self
        xeger_n = [0]

        def random_model(I2, owner, name, args, kwargs):
            import rstr
            if isinstance(owner, OracleRandom) and name == "choice":
                seq = args[0]
                if seq and isinstance(seq[0], dict) and "bank_code" in seq[0]:
                    return task.abstract_bank(I2, seq)
                if seq and all(isinstance(x, str) for x in seq):
                    # the no-country form draws the country: any member; what matters for reproducibility is that the
                    # ORDER of the sequence does not depend on the hash seed
                    task.hash_ordered_draw = list(I2.hash_ordered)
                    return task.cc if task.cc in seq else seq[0]
                raise Unsupported("Random.choice on an unexpected sequence")
            if isinstance(owner, OracleRandom):
                raise Unsupported(f"Random.{name} is not covered by an assumed contract")
            if isinstance(owner, rstr.Rstr) and name == "xeger":
                pat = args[0] if isinstance(args[0], re.Pattern) else re.compile(args[0])
                if rx.has_negated_class(pat):
                    raise Unsupported("xeger of a pattern with a negated class (hash-order dependent in rstr)")
                w = rx._max_width([x for x in rx.parse(pat) if x[0] is not rx.C.AT])
                xeger_n[0] += 1
                chars = [I2.fresh(f"xeger{xeger_n[0]}") for _ in range(w)]
                # facts about the oracle's answer (fresh, replay-stable names): assumptions, not path conditions
                I2.assumptions.append(rx.match_formula(pat, chars, "fullmatch"))
                for c in chars:
                    I2.assumptions.append(z3.And(c >= 0, c < 128))
                return SStr(chars)
            return NotImplemented
        I.random_model = random_model
        return inp

    def abstract_bank(self, I, seq):
        """an arbitrary entry of the registry group of this country: bank_code is "" or a text that fits the
        bank-identifying field(s) in length and classes (well_formed, C17)"""
        lens = sorted({len(e.get("bank_code", "")) for e in seq})
        fields = self.lookup_fields()
        cl = []
        for f in fields:
            a, e = self.field(f)
            cl += list(self.cls[a:e])
        choice = None
        for i, n in enumerate(lens[:-1]):
            if I.branch(SBool(I.fresh("bank_len_choice", "bool"))):
                choice = n
                break
        if choice is None:
            choice = lens[-1]
        ent = CC.AbstractEntry()
        ent.absent = {"account_code", "branch_code", "national_checksum_digits", "account_type", "account_id",
                      "account_holder_id", "currency_code"}
        if choice == 0:
            ent["bank_code"] = ""
        else:
            if choice != len(cl):
                raise Unsupported(f"registry bank code of length {choice} does not fit the lookup field(s) ({len(cl)})")
            chars = [I.fresh("bankcode") for _ in range(choice)]
            for c, k in zip(chars, cl):
                I.assumptions.append(CC.CLS[k](c))
                I.assumptions.append(CC.Fix(c))
            ent["bank_code"] = SStr(chars)
            if "national_checksum_digits" in fields:
                # well_formed (C17): where the bank-identifying fields include the national check digits, the listed
                # code satisfies the national rule (evaluated on every entry by C17)
                from contracts import national as N
                nat = N.EXACT.get(self.cc)
                if nat is not None:
                    b = [z3.IntVal(48)] * self.L
                    off = 0
                    for f in fields:
                        a, e = self.field(f)
                        b[a:e] = chars[off:off + (e - a)]
                        off += e - a
                    formula, _ = T.spec_formula(I, nat, [SStr(b)])
                    I.assumptions.append(formula)
        self.chosen = ent
        return ent

    def code(self, I, inp):
        from schwifty import BBAN
        self.chosen = None
        self.hash_ordered_draw = None
        r = I.call(I.getattr(BBAN, "random"), ["" if self.nocountry else self.cc],
                   dict(random=OracleRandom(0), use_registry=self.use_registry, **{p: inp[p] for p in self.pins}))
        return ("BBAN", r, self.chosen, self.hash_ordered_draw)

    def custom_obligations(self, I, inp, code_paths, cobs):
        out = []
        n_ret = 0
        for i, (path, o) in enumerate(cobs):
            pc = path["pc"]
            if isinstance(o, T.Escape):
                continue
            if isinstance(o, T.ExcTag):
                out.append((f"path {i}: the only admitted error is GenerateRandomOverflowError (got {o.name})", pc,
                            z3.BoolVal(o.name == "GenerateRandomOverflowError")))
                continue
            _, r, bank, hod = o
            n_ret += 1
            if self.nocountry:
                out.append((f"path {i}: the country is drawn from a sequence whose order does not depend on the hash seed "
                            f"(hash-ordered str sets iterated before the draw: {hod})", pc, z3.BoolVal(not hod)))
            chars = lift_str(payload(r)).chars if not isinstance(payload(r), str) else [z3.IntVal(ord(c)) for c in payload(r)]
            cc = path["heap"].get((id(r), "country_code"))
            out.append((f"path {i}: the BBAN is of the requested country", pc, z3.BoolVal(cc == self.cc)))
            if len(chars) != self.L:
                out.append((f"path {i}: BBAN length {len(chars)} != {self.L}", pc, z3.BoolVal(False)))
                continue
            out.append((f"path {i}: the BBAN conforms to the country's structure", pc,
                        z3.And(*[CC.CLS[k](c) for k, c in zip(self.cls, chars)])))
            for p in self.pins:
                a, e = self.field(p)
                out.append((f"path {i}: pinned {p} appears unchanged", pc,
                            z3.And(*[x == y for x, y in zip(chars[a:e], inp[p].chars)])))
            if self.use_registry and bank is not None and not isinstance(bank["bank_code"], str):
                fields = self.lookup_fields()
                if not any(f in self.pins for f in fields) and not any(
                        self.field(p)[0] < self.field(f)[1] and self.field(f)[0] < self.field(p)[1]
                        for p in self.pins for f in fields):
                    got = []
                    for f in fields:
                        a, e = self.field(f)
                        got += chars[a:e]
                    out.append((f"path {i}: registry draw without conflicting pin: the bank-identifying field(s) hold the "
                                "chosen bank's code (so .bank finds a listed bank)", pc,
                                z3.And(*[x == y for x, y in zip(got, bank["bank_code"].chars)])))
        out.append(("some path returns a BBAN (not vacuous)", [], z3.BoolVal(n_ret > 0)))
        return out

    # ------------------------------------------------------------------ native
    def native_agree(self, inp):
        from schwifty import BBAN, IBAN
        from schwifty.exceptions import GenerateRandomOverflowError
        if self.nocountry:
            res, err = hashseed_runs([""])
            return (res is not None and not res[0]), (res and res[0][:1]), "identical output under every hash seed"
        pins = {p: inp[p] for p in self.pins}
        seed = inp.get("seed", 0)
        try:
            a = IBAN.random(self.cc, random=_random.Random(seed), use_registry=self.use_registry, **pins)
            b = IBAN.random(self.cc, random=_random.Random(seed), use_registry=self.use_registry, **pins)
            bb = BBAN.random(self.cc, random=_random.Random(seed), use_registry=self.use_registry, **pins)
        except GenerateRandomOverflowError:
            return True, "overflow", "overflow admitted"
        except Exception as ex:  # noqa: BLE001
            return False, f"ESCAPE {type(ex).__name__}: {ex}", "a valid IBAN"
        ok = str(a) == str(b) and a.country_code == self.cc and a.bban == bb
        try:
            IBAN(str(a))
        except Exception as ex:  # noqa: BLE001
            return False, f"{a!s} is invalid: {type(ex).__name__}", "a valid IBAN"
        for p in self.pins:
            if getattr(a, p) != inp[p]:
                return False, f"{p}={getattr(a, p)!r}", f"pinned {inp[p]!r}"
        return ok, str(a), "deterministic, valid, pins honoured"

    def sample(self, rnd):
        s = {"seed": rnd.randrange(10 ** 6)}
        for p in self.pins:
            a, e = self.field(p)
            s[p] = "".join(rnd.choice({"n": "0123456789", "a": "ABCDEFGHIJKLMNOPQRSTUVWXYZ",
                                       "c": "0123456789ABCDEFGHIJKLMNOPQRSTUVWXYZ"}[k]) for k in self.cls[a:e])
        return s


HASHSEED_SCRIPT = r'''
import json, sys, random
from schwifty import IBAN, BBAN
out = {}
for cc in json.loads(sys.argv[1]):
    for seed in (1, 2, 3):
        for reg in (True, False):
            try:
                out[f"{cc}/{seed}/{reg}"] = str(IBAN.random(cc, random=random.Random(seed), use_registry=reg))
            except Exception as ex:
                out[f"{cc}/{seed}/{reg}"] = "raise " + type(ex).__name__
    # "identical on every call": the same seeded call again, after the component accessors of its result were read
    for reg in (True, False):
        first = out[f"{cc}/1/{reg}"]
        try:
            if not first.startswith("raise "):
                y = IBAN(first, allow_invalid=True)
                _ = (y.bank_code, y.branch_code, y.account_code, y.national_checksum_digits, y.bic, y.bank, y.is_valid)
                # ... and after the same seeded call with a pinned component (pins must not outlive their call)
                for pin in ("account_code", "bank_code"):
                    v = getattr(y, pin)
                    if v:
                        try:
                            IBAN.random(cc, random=random.Random(1), use_registry=reg, **{pin: "0" * len(v)})
                        except Exception:
                            pass
            out[f"{cc}/1/{reg}/again"] = str(IBAN.random(cc, random=random.Random(1), use_registry=reg))
        except Exception as ex:
            out[f"{cc}/1/{reg}/again"] = "raise " + type(ex).__name__
print(json.dumps(out))
'''


def hashseed_runs(ccs):
    """bounded stand-in for 'in every process and under every hash seed'"""
    import schwifty
    root = os.path.dirname(os.path.dirname(schwifty.__file__))
    outs = {}
    for hs in ("0", "1", "2", "random"):
        r = subprocess.run([sys.executable, "-c", HASHSEED_SCRIPT, json.dumps(ccs)], capture_output=True, text=True,
                           timeout=600, env=dict(os.environ, PYTHONHASHSEED=hs,
                                                 PYTHONPATH=root + os.pathsep + os.environ.get("PYTHONPATH", "")))
        if r.returncode != 0:
            return None, f"subprocess failed: {r.stderr[-300:]}"
        outs[hs] = json.loads(r.stdout.strip().splitlines()[-1])
    diffs = [dict(call=k, outputs={hs: outs[hs][k] for hs in outs}) for k in outs["0"]
             if len({outs[hs][k] for hs in outs}) > 1]
    for k, v in outs["0"].items():
        if v.startswith("raise ") and v != "raise GenerateRandomOverflowError":
            diffs.append(dict(call=k, outputs={"outcome": v, "admitted": "a valid IBAN or GenerateRandomOverflowError"}))
    for hs in outs:
        for k, v in outs[hs].items():
            if k.endswith("/again") and v != outs[hs][k[:-len("/again")]]:
                diffs.append(dict(call=k, outputs={"first call": outs[hs][k[:-len("/again")]], "same call again (same process, "
                                                   "after reading the components of the first result)": v}))
    return (diffs, len(outs["0"]) * len(outs)), ""


class HashSeedReplay:
    def native_agree(self, wit):
        from props.ibantasks import table
        res, err = hashseed_runs([wit["call"].split("/")[0]])
        return (res is not None and not res[0]), res and res[0][:1], "identical outputs"


def variants(cc, entry):
    pos = entry.get("positions", {})
    have = [k for k in ("bank_code", "branch_code", "account_code") if tuple(pos.get(k, [0, 0])) != (0, 0)]
    out = [(cc, 1, ""), (cc, 0, "")]
    if "positions" not in entry:
        return out
    if "account_code" in have:
        out.append((cc, 1, "account_code"))
    if "branch_code" in have:
        out += [(cc, 1, "branch_code"), (cc, 0, "branch_code")]
    if "bank_code" in have:
        out.append((cc, 0, "bank_code" + (",account_code" if "account_code" in have else "")))
    # the rarer component kinds (account type, currency code, holder id, account id): each pinned on its own
    for k, v in pos.items():
        if k not in ("bank_code", "branch_code", "account_code", "national_checksum_digits") and tuple(v) != (0, 0):
            out.append((cc, 1, k))
    return out


def combined_pin_sweep(seed):
    """BOUNDED: a pinned bank code of combined width (bank + branch part, the documented way to pin both) appears
    unchanged in the bank and branch fields, for every country that has both fields, with and without registry"""
    import random
    from schwifty import IBAN
    from schwifty.exceptions import GenerateRandomOverflowError
    from props.ibantasks import table
    alpha = {"n": "0123456789", "a": "ABCDEFGHIJKLMNOPQRSTUVWXYZ", "c": "0123456789ABCDEFGHIJKLMNOPQRSTUVWXYZ"}
    rnd = random.Random(seed + 29)
    n = 0
    for cc, s_ in sorted(table().items()):
        pos = s_.get("positions", {})
        b, r = pos.get("bank_code", [0, 0]), pos.get("branch_code", [0, 0])
        if b[1] == b[0] or r[1] == r[0]:
            continue
        cl = CC.classes(s_["bban_spec"])
        pin = "".join(rnd.choice(alpha[k]) for k in cl[b[0]:b[1]] + cl[r[0]:r[1]])
        for reg in (False, True):
            n += 1
            try:
                x = IBAN.random(cc, random=random.Random(seed + 3), use_registry=reg, bank_code=pin)
            except GenerateRandomOverflowError:
                continue
            except Exception as ex:  # noqa: BLE001
                return n, dict(country=cc, use_registry=reg, bank_code=pin, outcome=f"raises {type(ex).__name__}")
            if x.bank_code != pin[: b[1] - b[0]] or x.branch_code != pin[b[1] - b[0]:]:
                return n, dict(country=cc, use_registry=reg, bank_code=pin, outcome=str(x), bank_field=x.bank_code,
                               branch_field=x.branch_code)
    return n, None


class CombinedPinReplay:
    def native_agree(self, wit):
        import random
        from schwifty import IBAN
        from props.ibantasks import table
        pos = table()[wit["country"]]["positions"]
        wb = pos["bank_code"][1] - pos["bank_code"][0]
        try:
            for sd in range(5):
                x = IBAN.random(wit["country"], random=random.Random(sd), use_registry=wit["use_registry"], bank_code=wit["bank_code"])
                if x.bank_code != wit["bank_code"][:wb] or x.branch_code != wit["bank_code"][wb:]:
                    return False, f"{x!s}: bank {x.bank_code} branch {x.branch_code}", "both parts of the pin unchanged"
        except Exception as ex:  # noqa: BLE001
            return False, f"raises {type(ex).__name__}", "a valid IBAN with the pinned parts"
        return True, "honoured", "honoured"


def main(seed, tier):
    from props import common, ibantasks
    t0 = time.time()
    tab = ibantasks.table()
    specs = [("props.c13", "RandomTask", ("?DE", 1, "")), ("props.c13", "RandomTask", ("?GB", 0, ""))]
    for cc in sorted(tab):
        specs += [("props.c13", "RandomTask", v) for v in variants(cc, tab[cc])]
    results = common.run_tasks(specs, seed, tier)
    ext = set()
    for r in results:
        ext |= set(r.get("external_calls", []))
    deny = [e for e in sorted(ext) if e.split(".")[0] in ("random", "time", "os", "uuid", "secrets", "datetime")
            or e.startswith(("builtins.hash", "builtins.id"))]
    results.append(dict(task="sources of nondeterminism", functions={}, files={}, paths=0, error=None, spec=None, obligations=[dict(
        name="the call tree of BBAN.random draws only from the caller's generator: no call into random/time/os/uuid/"
             f"secrets, hash() or id() (external callables seen: {sorted(ext)})", kind="vc",
        status="discharged" if not deny else "refuted", backend="pyvc call log (all symbolic paths)", secs=0.0,
        witness={"calls": deny} if deny else None,
        detail="" if not deny else f"replayed natively: the symbolic run executed {deny}")]))
    from schwifty import registry as _reg
    with_banks = sorted(_reg.get("country"))
    bare = [cc for cc in tab if "positions" not in tab[cc]]        # sparse table entries (opaque-block generation)
    res, err = hashseed_runs(sorted(set(sorted(tab)[:: (2 if tier == "thorough" else 6)] + with_banks + bare + [""])))
    extra = []
    if res is None:
        results.append(dict(task="hash seed runs", obligations=[], functions={}, files={}, paths=0,
                            error=f"checker fault: {err}", spec=None))
        n_hs = 0
    else:
        diffs, n_hs = res
        extra.append(dict(name=f"seeded IBAN.random gives identical output under PYTHONHASHSEED 0/1/2/random in fresh "
                               f"processes ({n_hs} draws, bounded)", kind="bounded",
                          status="discharged" if not diffs else "refuted", backend="cpython (4 fresh processes)", secs=0.0,
                          witness=diffs[0] if diffs else None,
                          detail="" if not diffs else f"replayed natively: {diffs[0]}"))
    n_cp, cp_wit = combined_pin_sweep(seed)
    results.append(dict(task="combined pin", functions={}, files={}, paths=0, error=None, spec=["props.c13", "CombinedPinReplay", []],
                        obligations=[dict(name=f"a pinned bank code of combined (bank + branch) width appears unchanged in both "
                                               f"fields ({n_cp} calls, every country with both fields, bounded)", kind="bounded",
                                          status="discharged" if cp_wit is None else "refuted", backend="cpython", secs=0.0,
                                          witness=cp_wit, detail="" if cp_wit is None else f"replayed natively: {cp_wit}")]))
    results.append(dict(task="determinism", obligations=extra, functions={}, files={}, paths=0, error=None,
                        spec=["props.c13", "HashSeedReplay", []]))
    return common.finish(
        "C13", results, t0, seed, tier,
        assumptions=["A6 Random.choice(xs) returns a member of xs; Rstr.xeger(p) returns a full match of p and draws only "
                     "from the generator it was built with; rstr's only hash-ordered construct (negated classes) does not "
                     "occur: every live country pattern is checked for it",
                     "the retry loop `for _ in range(100)` is verified as ONE generic iteration followed by the for-else "
                     "(the body does not depend on the iteration: the loop variable is unused and all locals are assigned "
                     "before use within the iteration)",
                     "the registry group of a country is abstracted to an arbitrary entry whose bank_code is '' or fits "
                     "the bank-identifying field(s) (well_formed, C17)",
                     "pins are of exactly the field's width and within the field's classes, and are not a computed "
                     "check-digit field (declared scope: a pinned check digit cannot be both honoured and valid)",
                     "IBAN.random = IBAN.from_bban(bban.country_code, bban): validity follows from C02 for structure-"
                     "conforming BBANs (composition, probed natively by the cross-checks)",
                     "cross-process / hash-seed reproducibility is a BOUNDED stand-in (fresh subprocesses)"],
        extra_cov=dict(variants=len(specs), bounded_parts=[dict(what="PYTHONHASHSEED runs in fresh processes", draws=n_hs)]),
        not_proved_note="per country x registry mode x pinned subset: every returning path of the real BBAN.random yields a "
                        "structure-conforming BBAN of the country with the pins unchanged (and the chosen bank's code in "
                        "place); the only error is the documented overflow")
