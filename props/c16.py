"""C16 - IBAN, BIC and BBAN are string values: equality, hashing, order and copies agree."""
from __future__ import annotations

import copy
import inspect
import pickle
import time

import z3

from contracts import common as CC
from pyvc import models, task as T
from pyvc.values import Raised, SBool, SInt, SObj, SStr, Unsupported, concretize, is_sym, lift_str, payload

_HASH = {}
_PROCESS = [1]      # hash(str) is a different function in every process (PYTHONHASHSEED): the UF is indexed by it


def _m_hash(I, v):
    """hash(str) as an uninterpreted function of the characters (all that matters: equal text => equal hash)"""
    v = payload(v)
    if isinstance(v, str):
        v = SStr([ord(c) for c in v])
    s = lift_str(v)
    n = len(s)
    key = (n, _PROCESS[0])
    if key not in _HASH:
        _HASH[key] = z3.Function(f"HashStr{n}_process{_PROCESS[0]}", *([z3.IntSort()] * n), z3.IntSort()) if n else None
    return SInt(_HASH[key](*s.chars)) if n else SInt(z3.Int(f"hash_of_empty_process{_PROCESS[0]}"))


models.BUILTIN_MODELS[hash] = _m_hash

CLASSES = ("IBAN", "BIC", "BBAN")


def make(I, cls_name, chars, cc="DE"):
    import schwifty
    cls = getattr(schwifty, cls_name)
    if cls_name == "BBAN":
        return I.call(cls, [cc, SStr(chars)], {})
    return I.call(cls, [SStr(chars)], {"allow_invalid": True})


def make_native(cls_name, text, cc="DE"):
    import schwifty
    cls = getattr(schwifty, cls_name)
    return cls(cc, text) if cls_name == "BBAN" else cls(text, allow_invalid=True)


class CompareTask(T.Task):
    """==, !=, <, hash of two objects (any two of the three classes) with symbolic texts of lengths n, m, and
    against plain strings: exactly those of the compact strings"""

    def __init__(self, ca, cb, n, m):
        self.ca, self.cb, self.n, self.m = ca, cb, int(n), int(m)
        self.name = f"{ca}[{n}] vs {cb}[{m}]: ==, <, hash"
        self.contracts = {"schwifty.common.clean": CC.clean_contract}

    def setup(self, I):
        a = [z3.Int(f"a{i}") for i in range(self.n)]
        b = [z3.Int(f"b{i}") for i in range(self.m)]
        for x in a + (b if self.cb != "str" else []):
            I.assumptions += [CC.Fix(x), CC.fix_facts(x)]
        for x in (b if self.cb == "str" else []):
            I.assumptions.append(z3.And(x >= 0, x <= 0x10FFFF))      # a plain string: ANY text, not only clean ones
        return {"a": SStr(a), "b": SStr(b)}

    def code(self, I, inp):
        import ast
        x = make(I, self.ca, inp["a"].chars)
        # the second BBAN belongs to ANOTHER country: the value of a BBAN object is its text alone
        y = make(I, self.cb, inp["b"].chars, cc="AT") if self.cb != "str" else inp["b"]
        eq = I.call(I.getattr(x, "__eq__"), [y], {})
        lt = I.call(I.getattr(x, "__lt__"), [y], {})
        hx = I.call(I.getattr(x, "__hash__"), [], {})
        return {"eq": eq, "lt": lt, "hash": hx}

    def custom_obligations(self, I, inp, code_paths, cobs):
        import ast
        a, b = inp["a"], inp["b"]
        out = []
        for i, (path, o) in enumerate(cobs):
            if not isinstance(o, dict):
                out.append((f"path {i}: comparison raised {o!r}", path["pc"], z3.BoolVal(False)))
                continue
            want_eq = I.str_eq(a, b)
            want_lt = I.str_order(ast.Lt(), a, b) if (self.n or self.m) else False
            out.append((f"path {i}: x == y  iff  str(x) == str(y)", path["pc"], T.as_formula(T.obs_eq(I, o["eq"], want_eq))))
            out.append((f"path {i}: x < y  iff  str(x) < str(y)", path["pc"], T.as_formula(T.obs_eq(I, o["lt"], want_lt))))
            out.append((f"path {i}: hash(x) == hash(str(x))", path["pc"],
                        T.as_formula(T.obs_eq(I, o["hash"], _m_hash(I, a)))))
        return out

    def native_agree(self, inp):
        x = make_native(self.ca, inp["a"])
        y = make_native(self.cb, inp["b"], cc="AT") if self.cb != "str" else inp["b"]
        sa, sb = inp["a"], inp["b"]
        ok = (x == y) == (sa == sb) and (x != y) == (sa != sb) and (x < y) == (sa < sb) and (x <= y) == (sa <= sb) \
            and (x > y) == (sa > sb) and (x >= y) == (sa >= sb) and hash(x) == hash(sa) and (y == x) == (sa == sb) \
            and ({x: 1}.get(sa) == 1) and sorted([x, y]) == sorted([x, y], key=str)
        return ok, "comparison results", "those of the strings"

    def sample(self, rnd):
        al = "AB01"
        a = "".join(rnd.choice(al) for _ in range(self.n))
        b = a if rnd.random() < 0.4 and self.n == self.m else "".join(rnd.choice(al) for _ in range(self.m))
        if self.cb == "str" and rnd.random() < 0.6 and self.m:
            # plain strings need not be compact: lower case, blanks
            core = a[: max(0, self.m - 1)]
            b = (core.lower() if rnd.random() < 0.5 else core) + rnd.choice([" ", "a", "\t", "b"])
            b = b[: self.m].ljust(self.m)
        return {"a": a, "b": b}


class ReconstructTask(T.Task):
    """assumed contract of copy.copy / pickle (object.__reduce_ex__(2) of a str subclass): the copy is
    cls.__new__(cls, *newargs) with newargs = x.__getnewargs__() if defined else (str(x),), then __dict__ is
    updated with the (shallow-copied / pickled) state; deepcopy calls x.__deepcopy__(memo) when defined.
    Obligations on the real code: that call binds (arity), returns an object with the same text, and never
    raises - for EVERY object, valid or built with validation off."""

    def __init__(self, cls_name, op, n):
        self.cls_name, self.op, self.n = cls_name, op, int(n)
        self.name = f"{op}({cls_name} of length {n})"
        if op == "pickle-other-process":
            self.crosscheck_samples = 1       # two fresh subprocesses per sample
        from props.ibantasks import national_contract
        self.contracts = {"schwifty.common.clean": CC.clean_contract,
                          "schwifty.checksum.numerify": CC.make_numerify_contract(0),
                          "schwifty.bban.BBAN.validate_national_checksum": national_contract}

    def setup(self, I):
        a = [z3.Int(f"a{i}") for i in range(self.n)]
        for x in a:
            I.assumptions += [CC.Fix(x), CC.fix_facts(x)]
        return {"a": SStr(a)}

    def code(self, I, inp):
        import schwifty
        cls = getattr(schwifty, self.cls_name)
        x = make(I, self.cls_name, inp["a"].chars)
        _PROCESS[0] = 1
        if self.op == "deepcopy":
            r = models.m_deepcopy(I, x)
        elif self.op == "pickle-other-process":
            # the object is hashed, pickled, and loaded in ANOTHER process (different hash seed): the state travels,
            # the hash function does not
            I.call(I.getattr(x, "__hash__"), [], {})
            r = models.reconstruct(I, x)
            _PROCESS[0] = 2
            try:
                hr = I.call(I.getattr(r, "__hash__"), [], {})
                want = _m_hash(I, payload(r))
            finally:
                _PROCESS[0] = 1
            return ("COPY", r, hr, want)
        else:
            r = models.reconstruct(I, x)      # copy.copy and pickle: the reduce protocol
        return ("COPY", r)

    def custom_obligations(self, I, inp, code_paths, cobs):
        out = []
        for i, (path, o) in enumerate(cobs):
            if isinstance(o, T.Escape):
                continue        # reported by the escape obligation
            if isinstance(o, T.ExcTag):
                out.append((f"path {i}: {self.op} of an object must not raise (raised {o.name})", path["pc"], z3.BoolVal(False)))
                continue
            r = o[1]
            same_cls = isinstance(r, SObj) and r.cls.__name__ == self.cls_name
            out.append((f"path {i}: the copy has the same class", path["pc"], z3.BoolVal(same_cls)))
            if same_cls:
                out.append((f"path {i}: the copy has the same text", path["pc"],
                            T.as_formula(T.obs_eq(I, payload(r), inp["a"]))))
            if len(o) == 4:
                out.append((f"path {i}: in the loading process hash(copy) == hash(str(copy))", path["pc"],
                            T.as_formula(T.obs_eq(I, o[2], o[3]))))
        return out

    def native_agree(self, inp):
        if self.op == "pickle-other-process":
            return cross_process_pickle(self.cls_name, inp["a"])
        x = make_native(self.cls_name, inp["a"])
        try:
            if self.op == "copy":
                y = copy.copy(x)
            elif self.op == "deepcopy":
                y = copy.deepcopy(x)
            else:
                y = pickle.loads(pickle.dumps(x, int(self.op[-1])))
        except Exception as ex:  # noqa: BLE001
            return False, f"raised {type(ex).__name__}: {ex}", "an equal object"
        ok = type(y) is type(x) and y == x and str(y) == str(x) and getattr(y, "country_code", None) == getattr(x, "country_code", None)
        if self.cls_name == "IBAN":
            ok = ok and y.bban == x.bban and type(y.bban) is type(x.bban) and \
                y.bban.country_code == x.bban.country_code
            for acc in ("bank_code", "account_code", "branch_code"):
                ok = ok and T.native_obs(lambda: getattr(x, acc)) == T.native_obs(lambda: getattr(y, acc))
        return ok, repr(y), repr(x)

    def sample(self, rnd):
        pool = {"IBAN": ["DE89370400440532013000", "GB29NWBK60161331926819", "XX00", "DE00", "", "ΐ01", "Ǆ89É"],
                "BIC": ["GENODEM1GLS", "DEUTDEFF", "FOO", "", "ΐΰǅßŉ", "ΐ0123456", "ΐ0123456789"],
                "BBAN": ["370400440532013000", "12", "", "ΐ1"]}[self.cls_name]
        c = [p for p in pool if len(p) == self.n]
        return {"a": rnd.choice(c)} if c else {"a": "".join(rnd.choice("AB01") for _ in range(self.n))}


XPROC = r'''
import sys, pickle, base64
import schwifty
cls = getattr(schwifty, sys.argv[2])
if sys.argv[1] == "dump":
    x = cls("DE", sys.argv[3]) if sys.argv[2] == "BBAN" else cls(sys.argv[3], allow_invalid=True)
    hash(x); {x: 1}
    print(base64.b64encode(pickle.dumps(x)).decode())
else:
    y = pickle.loads(base64.b64decode(sys.argv[3]))
    print(int(hash(y) == hash(str(y)) and {str(y): 1}.get(y) == 1 and y in {str(y)}))
'''


def cross_process_pickle(cls_name, text):
    import os
    import subprocess
    import sys
    import schwifty
    root = os.path.dirname(os.path.dirname(schwifty.__file__))
    env = dict(os.environ, PYTHONPATH=root + os.pathsep + os.environ.get("PYTHONPATH", ""))
    a = subprocess.run([sys.executable, "-c", XPROC, "dump", cls_name, text], capture_output=True, text=True,
                       env=dict(env, PYTHONHASHSEED="1"), timeout=120)
    if a.returncode != 0:
        return False, f"dump failed: {a.stderr[-200:]}", "an equal, equally hashed object"
    b = subprocess.run([sys.executable, "-c", XPROC, "load", cls_name, a.stdout.strip()], capture_output=True, text=True,
                       env=dict(env, PYTHONHASHSEED="2"), timeout=120)
    ok = b.returncode == 0 and b.stdout.strip() == "1"
    return ok, f"loaded in a process with another hash seed: hash agrees = {b.stdout.strip() or b.stderr[-200:]}", "hash(y) == hash(str(y))"


def static_obligations():
    """facts evaluated on the live classes"""
    import schwifty
    from schwifty import common
    out = []
    for name in CLASSES:
        cls = getattr(schwifty, name)
        # total_ordering adds nothing: the remaining comparisons are str's own, on the same text
        inherited = {m: getattr(cls, m) for m in ("__le__", "__gt__", "__ge__", "__ne__")}
        ok = all(getattr(str, m) == f or f.__qualname__.startswith("Base.") for m, f in inherited.items())
        own = [m for m in ("__le__", "__gt__", "__ge__") if m in common.Base.__dict__ or m in cls.__dict__]
        out.append(dict(name=f"{name}: <=, >, >= are str's comparisons of the same text (total_ordering adds nothing: "
                             f"{own or 'none defined'})", status="discharged" if not own and ok else "undecided",
                        backend="evaluation on the live class", secs=0.0, witness=None, detail="", kind="vc"))
        # arity of the reconstruction call of the reduce protocol
        x = make_native(name, {"IBAN": "DE89370400440532013000", "BIC": "GENODEM1GLS", "BBAN": "370400440532013000"}[name])
        red = x.__reduce_ex__(2)
        args = red[1]
        try:
            inspect.signature(cls.__new__).bind(*args)
            ok, det = True, ""
        except TypeError as ex:
            ok, det = False, f"replayed natively: {name}.__new__{inspect.signature(cls.__new__)} cannot be called with the " \
                             f"reconstruction arguments {args!r} of __reduce_ex__(2): {ex}"
        out.append(dict(name=f"{name}: __reduce_ex__(2) reconstruction arguments satisfy the signature of __new__",
                        status="discharged" if ok else "refuted", backend="evaluation on the live class", secs=0.0,
                        witness=None if ok else {"a": str(x)}, detail=det, kind="vc"))
        # every pickle protocol (0 and 1 take another reduce path than 2+), copy and deepcopy, valid and invalid texts
        import copy as _copy
        import pickle as _pickle
        bad = None
        for text in ({"IBAN": "DE89370400440532013000", "BIC": "GENODEM1GLS", "BBAN": "370400440532013000"}[name], "X1", ""):
            y = make_native(name, text)
            ops = [(f"pickle protocol {p_}", (lambda v, p_=p_: _pickle.loads(_pickle.dumps(v, protocol=p_))))
                   for p_ in range(_pickle.HIGHEST_PROTOCOL + 1)] + [("copy", _copy.copy), ("deepcopy", _copy.deepcopy)]
            for label, op in ops:
                try:
                    z = op(y)
                    same = type(z) is type(y) and z == y and str(z) == str(y) and hash(z) == hash(y) and \
                        getattr(z, "country_code", None) == getattr(y, "country_code", None) and \
                        (name != "IBAN" or (z.bban == y.bban and z.bban.country_code == y.bban.country_code))
                    if not same:
                        bad = bad or (text, label, f"copy {z!r} differs from {y!r}")
                except Exception as ex:  # noqa: BLE001
                    bad = bad or (text, label, f"raises {type(ex).__name__}: {ex}")
        out.append(dict(name=f"{name}: copy, deepcopy and every pickle protocol return an equal object of the same class "
                             "(valid and invalid texts; bounded: three texts)", status="discharged" if not bad else "refuted",
                        backend="evaluation on the live class", secs=0.0,
                        witness=None if not bad else {"a": bad[0], "op": bad[1]},
                        detail="" if not bad else f"replayed natively: {name}({bad[0]!r}) under {bad[1]}: {bad[2]}", kind="bounded"))
    return out


def main(seed, tier):
    from props import common
    t0 = time.time()
    specs = []
    for ca, cb in [(a, b) for a in CLASSES for b in CLASSES + ("str",)]:
        for n, m in [(0, 0), (1, 1), (3, 3), (2, 3), (4, 2), (8, 8)]:
            specs.append(("props.c16", "CompareTask", (ca, cb, n, m)))
    lengths = {"IBAN": [0, 3, 4, 22], "BIC": [0, 5, 8, 11], "BBAN": [0, 2, 18]}
    for cls in CLASSES:
        for op in ("copy", "deepcopy", "pickle2", "pickle-other-process"):
            for n in lengths[cls]:
                specs.append(("props.c16", "ReconstructTask", (cls, op, n)))
    results = common.run_tasks(specs, seed, tier)
    results.append(dict(task="live classes", obligations=static_obligations(), functions={}, files={}, paths=0, error=None,
                        spec=["props.c16", "ReconstructTask", ["BBAN", "copy", 18]]))
    return common.finish(
        "C16", results, t0, seed, tier,
        assumptions=["A7 copy.copy and pickle reconstruct through object.__reduce_ex__(2): cls.__new__(cls, *newargs), then "
                     "__dict__ update; copy.deepcopy calls __deepcopy__ when defined (CPython's documented protocol, "
                     "probed natively by the cross-check of every task); hash(str) is an uninterpreted function of the text",
                     "texts are vectors of the stated lengths (objects of any text, valid or not): the comparison "
                     "obligations are per length pair (a sample of lengths; the bodies do not depend on the length), the "
                     "reconstruction obligations per class x operation x length"],
        not_proved_note="thin by nature: most of the content is the assumed protocol; the real __eq__/__lt__/__hash__/"
                        "__deepcopy__/__new__/__getnewargs__ bodies are what is verified")
