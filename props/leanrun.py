"""Run a Lean 4 file against the pre-compiled Mathlib and turn its theorems into obligations."""
from __future__ import annotations

import os
import re
import shutil
import subprocess
import tempfile
import time

MATHLIB = "/opt/veriftools/mathlib4"
ALLOWED_AXIOMS = {"propext", "Classical.choice", "Quot.sound"}
FORBIDDEN = ("sorry", "admit", "axiom", "native_decide", "unsafe", "implemented_by", "extern")


def run(lean_file, theorems, extra_text=""):
    """returns (ok_or_None, obligations, tail_of_output, seconds)"""
    src = open(lean_file, encoding="utf-8").read()
    bad = [w for w in FORBIDDEN if re.search(r"(?<![\w.])" + re.escape(w) + r"(?![\w.])", src)]
    gen = src + "\n\n" + extra_text + "\n" + "\n".join(f"#print axioms {t}" for t in theorems) + "\n"
    d = tempfile.mkdtemp(prefix="pyvclean")
    t0 = time.time()
    try:
        path = os.path.join(d, "Gen.lean")
        open(path, "w", encoding="utf-8").write(gen)
        out = subprocess.run(["lake", "env", "lean", path], cwd=MATHLIB, capture_output=True, text=True, timeout=1800)
        text = out.stdout + out.stderr
    except (subprocess.TimeoutExpired, OSError) as ex:
        return None, [], f"lean did not run: {ex}", time.time() - t0
    finally:
        shutil.rmtree(d, ignore_errors=True)
    secs = time.time() - t0
    errors = [ln for ln in text.splitlines() if ": error" in ln or ln.startswith("error")]
    axioms = {}
    for m in re.finditer(r"'([\w.]+)' depends on axioms: \[([^\]]*)\]|'([\w.]+)' does not depend on any axioms", text):
        if m.group(1):
            axioms[m.group(1)] = {a.strip() for a in m.group(2).split(",")}
        else:
            axioms[m.group(3)] = set()
    obls = []
    name = os.path.basename(lean_file)
    for t in theorems:
        ok = t in axioms and axioms[t] <= ALLOWED_AXIOMS and not errors and not bad
        obls.append(dict(name=f"lean {name}: theorem {t} elaborates, no sorry (axioms: {sorted(axioms.get(t, ['?']))})",
                         status="discharged" if ok else "undecided", backend="lean4+mathlib",
                         secs=round(secs / max(1, len(theorems)), 2), witness=None,
                         detail="" if ok else repr(errors[:3] or bad or ["theorem not reported"]), kind="vc"))
    return (not errors and not bad), obls, text[-800:], secs
