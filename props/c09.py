"""C09 - computed national check digits validate; parsing and rebuilding round-trips."""
from __future__ import annotations

import time

import z3

from contracts import common as CC
from contracts import national as N
from pyvc import task as T
from pyvc.values import Raised, SObj, SStr, lift_str, payload


class RebuildTask(T.Task):
    """for every nationally valid, structure-conforming BBAN b of country K: BBAN.from_components(K, **components
    read off b) == b at every position that belongs to a published component"""

    def __init__(self, cc):
        from props.c06 import get_index_contract, luhn_contract
        from props.ibantasks import table
        self.cc = cc
        self.name = f"BBAN.from_components(components_of(b)) == b [{cc}]"
        self.entry = table()[cc]
        self.L = self.entry["bban_length"]
        self.contracts = {"schwifty.common.clean": CC.clean_contract,
                          "schwifty.checksum.numerify": CC.make_numerify_contract(("iban", self.L)),
                          "contracts.common.Num": CC.make_num_spec_contract(("iban", self.L)),
                          "schwifty.checksum.italy.get_index": get_index_contract,
                          "schwifty.checksum.luhn": luhn_contract}

    def needs_validity(self):
        """only where from_components recomputes a national field does the round trip depend on national validity;
        elsewhere the stronger statement (every structure-conforming BBAN round-trips) is proved"""
        from schwifty.checksum import algorithms
        a, e = self.entry.get("positions", {}).get("national_checksum_digits", [0, 0])
        return f"{self.cc}:default" in algorithms and e > a

    def nat(self):
        return N.EXACT.get(self.cc) or (N.BAND[self.cc][0] if self.cc in N.BAND else None)

    def setup(self, I):
        b, self.cl = CC.sym_bban(I, self.cc)
        I.contracts.update(self.contracts)
        I.contracts["schwifty.bban.BBAN.bank"] = CC.make_bank_contract()
        return {"b": b}

    def components(self, b):
        from schwifty.domain import Component
        pos = self.entry.get("positions", {})
        out = {}
        for c in Component:
            a, e = pos.get(c.value, [0, 0])
            out[c.value] = (a, e)
        return out

    def code(self, I, inp):
        from schwifty import BBAN
        b = inp["b"]
        # "nationally valid" is what the LIBRARY accepts: BBAN(K, b).validate_national_checksum() returns (paths on
        # which it raises have nothing to show)
        try:
            if self.needs_validity():
                obj = I.call(BBAN, [self.cc, b], {})
                ok = I.call(I.getattr(obj, "validate_national_checksum"), [], {})
        except Raised as e:
            from schwifty.exceptions import SchwiftyException
            if isinstance(e.exc, SchwiftyException):
                return ("NOT-VALID", type(e.exc).__name__)
            raise
        kw = {}
        for name, (a, e) in self.components(b).items():
            kw[name] = SStr(b.chars[a:e]) if e > a else ""
        r = I.call(I.getattr(BBAN, "from_components"), [self.cc], kw)
        return ("BBAN", payload(r))

    def custom_obligations(self, I, inp, code_paths, cobs):
        b = inp["b"].chars
        covered = set()
        for name, (a, e) in self.components(inp["b"]).items():
            covered |= set(range(a, e))
        out = []
        for i, (path, o) in enumerate(cobs):
            if isinstance(o, T.Escape):
                continue
            if isinstance(o, tuple) and o[0] == "NOT-VALID":
                out.append((f"path {i}: (not nationally valid: nothing to show)", path["pc"], z3.BoolVal(True)))
                continue
            if isinstance(o, tuple) and o[0] == "BBAN":
                r = lift_str(o[1]).chars
                if len(r) != self.L:
                    out.append((f"path {i}: rebuilt BBAN has length {self.L}", path["pc"], z3.BoolVal(False)))
                    continue
                eqs = [r[j] == b[j] for j in sorted(covered)]
                out.append((f"path {i}: the rebuilt BBAN equals the original at all {len(covered)} component positions",
                            path["pc"], z3.And(*eqs) if eqs else z3.BoolVal(True)))
            else:
                out.append((f"path {i}: rebuilding a nationally valid BBAN does not raise ({o!r})", path["pc"],
                            z3.BoolVal(False)))
        return out

    def native_agree(self, inp):
        from schwifty import BBAN
        b = inp["b"]
        if self.needs_validity():
            valid = T.native_obs(lambda: BBAN(self.cc, b).validate_national_checksum())
            if valid is not True:
                return True, "n/a", "not nationally valid"
        kw = {name: b[a:e] for name, (a, e) in self.components(b).items()}
        r = T.native_obs(lambda: str(BBAN.from_components(self.cc, **kw)))
        covered = set()
        for name, (a, e) in self.components(b).items():
            covered |= set(range(a, e))
        ok = isinstance(r, str) and len(r) == len(b) and all(r[j] == b[j] for j in covered)
        return ok, r, b

    def sample(self, rnd):
        import itertools
        b = "".join(rnd.choice({"n": "0123456789", "a": "ABCDEFGHIJKLMNOPQRSTUVWXYZ",
                                "c": "0123456789ABCDEFGHIJKLMNOPQRSTUVWXYZ"}[k]) for k in self.cl)
        fn = self.nat()
        if fn is not None:
            a, e = self.entry["positions"].get("national_checksum_digits", [0, 0])
            if e > a:
                alphabet = "ABCDEFGHIJKLMNOPQRSTUVWXYZ" if self.cl[a] == "a" else "0123456789"
                for tup in itertools.product(alphabet, repeat=e - a):
                    cand = b[:a] + "".join(tup) + b[e:]
                    if fn(cand):
                        return {"b": cand}
        return {"b": b}


def main(seed, tier):
    from props import common, ibantasks
    t0 = time.time()
    tab = ibantasks.table()
    with_pos = sorted(cc for cc, s in tab.items() if "positions" in s)
    nineteen = ["BE", "BA", "ES", "FR", "MC", "IT", "SM", "FI", "NO", "PL", "EE", "PT", "RS", "ME", "MK", "SI", "TL",
                "MR", "TN"]
    specs = [("props.c08", "GenerateTask", (cc,)) for cc in nineteen if cc in tab]
    specs += [("props.c09", "RebuildTask", (cc,)) for cc in with_pos]
    specs += [("props.c06", "LuhnTask", (13,)), ("props.c06", "GetIndexTask", ())]
    results = common.run_tasks(specs, seed, tier)
    from props.c01 import ASSUMPTIONS
    return common.finish(
        "C09", results, t0, seed, tier, assumptions=ASSUMPTIONS + [
            "the national rules are the sidecar specs of C06 (contracts/national.py); 'nationally valid' = that spec",
            "random draws reach the national digits only through BBAN.from_components (C13's funnel obligation)",
            "NO: for account numbers whose digits 5-6 are 00 the rule is the library's documented reading (see C06)"],
        extra_cov=dict(computing_countries=nineteen, countries_with_positions=len(with_pos)),
        not_proved_note="(i) for the 19 computing countries every IBAN returned by generate satisfies the published "
                        "national rule; (ii) per country with positions: from_components(components_of(b)) == b on "
                        "component positions for every nationally valid b")
