"""C14 - concurrent use gives every caller the answer it would get alone.

The family has no schedule quantifier; what is proved is a SUFFICIENT condition (DESIGN C14):
 tier 1  every call tree writes only to objects allocated during the call (then two calls share no written location
         and every interleaving is observationally a serial order);
 tier 2  (rely/guarantee) where tier 1 fails, the functional contract is re-proved with every read of a
         shared-written field returning an ARBITRARY value (another thread may have written it in between); if it
         still holds the shared write is unobservable; if not, the model names the victim input and the pair is
         replayed natively under a FORCED schedule (thread A parked right after its write, thread B runs to
         completion on the same object, A resumes)."""
from __future__ import annotations

import json
import os
import sys
import threading
import time


def base_specs():
    from props import c07
    from contracts import national as N
    specs = [("props.c07", "MethodTask", (m,)) for m in c07.methods()]
    specs += [("props.c06", "NatTask", (cc,)) for cc in N.COUNTRIES_22]
    specs += [("props.ibantasks", "IbanTask", (cc, "construct")) for cc in ("DE", "NO", "GB", "IT", "None")]
    specs += [("props.bictasks", "BicTask", ("construct",))]
    specs += [("props.c08", "GenerateTask", (cc,)) for cc in ("DE", "ES", "NL")]
    from props import lookuptasks
    specs += lookuptasks.specs()
    specs += [("props.c13", "RandomTask", v) for v in (("DE", 1, ""), ("PL", 1, "branch_code"), ("NO", 0, ""), ("GB", 1, ""))]
    specs += [("props.c11", "DecomposeTask", ("BR",)), ("props.c02", "FromBbanTask", ("MT",))]
    # countries whose table entry lacks optional keys (no published positions): reads with defaults must stay reads
    from props.ibantasks import table
    bare = [cc for cc in sorted(table()) if "positions" not in table()[cc]][:2]
    specs += [("props.c11", "DecomposeTask", (cc,)) for cc in bare]
    specs += [("props.c13", "RandomTask", (cc, 0, "")) for cc in bare[:1]]
    # a country with published positions but without bank entries (absent from the country index)
    from schwifty import registry
    bankless = [cc for cc in sorted(table()) if cc not in registry.get("country") and "positions" in table()[cc]][:1]
    specs += [("props.c13", "RandomTask", (cc, 1, "")) for cc in bankless]
    return specs


def forced_schedule(run_a, run_b, file, line):
    """thread A runs run_a() and is parked when it reaches a line after `line` in `file` (i.e. right after the
    shared write); the caller's thread then runs run_b() to completion; A resumes.  returns A's result"""
    parked, resume = threading.Event(), threading.Event()
    res = {}

    def tracer(frame, event, arg):
        if frame.f_code.co_filename == file:
            def local(frame, event, arg):
                if event == "line" and frame.f_lineno > line and not parked.is_set():
                    parked.set()
                    resume.wait(10)
                return local
            if frame.f_code.co_firstlineno <= line:
                return local
        return tracer

    def A():
        sys.settrace(tracer)
        try:
            res["A"] = run_a()
        finally:
            sys.settrace(None)
    ta = threading.Thread(target=A)
    ta.start()
    if parked.wait(10):
        res["B"] = run_b()
    resume.set()
    ta.join(20)
    return res.get("A"), parked.is_set()


# ------------------------------------------------------------------------------------------ schedule sweep
_SW = {"ident": None, "k": 0, "n": 0, "parked": None, "resume": None, "instrumented": False}


def _codes_below(root):
    """every code object (functions, methods, nested functions, comprehensions) of the modules whose file lies below root"""
    import types
    seen, out = set(), []

    def walk(code):
        if id(code) in seen:
            return
        seen.add(id(code))
        out.append(code)
        for c in code.co_consts:
            if isinstance(c, types.CodeType):
                walk(c)

    def visit(obj, depth=0):
        if isinstance(obj, (staticmethod, classmethod)):
            obj = obj.__func__
        if isinstance(obj, property):
            for f in (obj.fget, obj.fset, obj.fdel):
                if f is not None:
                    visit(f, depth)
            return
        obj = getattr(obj, "__wrapped__", obj)
        code = getattr(obj, "__code__", None)
        if isinstance(code, types.CodeType):
            if code.co_filename.startswith(root):
                walk(code)
            return
        if isinstance(obj, type) and depth < 3:
            for v in vars(obj).values():
                visit(v, depth + 1)
    for m in list(sys.modules.values()):
        f = getattr(m, "__file__", None) or ""
        if f.startswith(root):
            for v in list(vars(m).values()):
                visit(v)
    return out


def _instr(code, offset):
    if threading.get_ident() != _SW["ident"]:
        return
    _SW["n"] += 1
    if _SW["k"] and _SW["n"] == _SW["k"] and not _SW["parked"].is_set():
        _SW["parked"].set()
        _SW["resume"].wait(20)


def _instrument(root):
    """instruction-level events (sys.monitoring, PEP 669) on the library's code objects; once per process"""
    if _SW["instrumented"]:
        return
    mon = sys.monitoring
    tool = 4
    mon.use_tool_id(tool, "pyvc-schedule-sweep")
    mon.register_callback(tool, mon.events.INSTRUCTION, _instr)
    for code in _codes_below(root):
        mon.set_local_events(tool, code, mon.events.INSTRUCTION)
    _SW["instrumented"] = True


def _run_schedule(run_a, run_b, root, k):
    """thread A runs run_a(); every bytecode instruction it executes inside the library (files below `root`) is an
    event; A is parked at its k-th event, the calling thread then runs run_b() to completion, A resumes.  k = 0: A
    runs alone (events are only counted).  returns (repr of A's outcome, number of events seen, parked?)"""
    _instrument(root)
    parked, resume = threading.Event(), threading.Event()
    _SW.update(k=k, n=0, parked=parked, resume=resume, ident=None)
    box = {}

    def A():
        _SW["ident"] = threading.get_ident()
        try:
            box["A"] = repr(run_a())
        except BaseException as ex:  # noqa: BLE001
            box["A"] = f"raises {type(ex).__name__}"
        finally:
            _SW["ident"] = None
    ta = threading.Thread(target=A)
    ta.start()
    if k and parked.wait(20):
        try:
            box["B"] = repr(run_b())
        except BaseException as ex:  # noqa: BLE001
            box["B"] = f"raises {type(ex).__name__}"
    resume.set()
    ta.join(30)
    return box.get("A", "no result"), _SW["n"], parked.is_set(), box.get("B")


def _forked(fn):
    """fn() in a forked child (pristine copy of the process state); returns its JSON-able result"""
    r, w = os.pipe()
    pid = os.fork()
    if pid == 0:
        os.close(r)
        try:
            data = json.dumps(fn()).encode()
        except BaseException as ex:  # noqa: BLE001
            data = json.dumps(["crash", type(ex).__name__, str(ex)[:200]]).encode()
        os.write(w, data)
        os._exit(0)
    os.close(w)
    buf = b""
    while True:
        chunk = os.read(r, 65536)
        if not chunk:
            break
        buf += chunk
    os.close(r)
    os.waitpid(pid, 0)
    return json.loads(buf.decode()) if buf else ["crash", "no output", ""]


def schedule_sweep(task, budget_s=240, seed=0):
    """BOUNDED native search for an interleaving of two calls of the task in which one of them gets another answer
    than alone: for pairs of sampled inputs (A, B) and every event k of A's run (bytecode instruction level inside the
    library), A is parked at k, B runs to completion in the calling thread, A resumes; every schedule runs in a forked
    child, i.e. on pristine process state.  returns a witness dict or None"""
    import random
    import schwifty
    root = os.path.dirname(schwifty.__file__)
    rnd = random.Random(seed + 3)
    pool = []
    for _ in range(300):
        s_ = task.sample(rnd)
        if s_ is None:
            return None
        if not isinstance(s_, dict):
            continue
        pool.append(s_)
    def outcome(inp):
        try:
            return repr(task.native_code(dict(inp)))
        except NotImplementedError:
            return repr(task.native_agree(dict(inp))[1])
        except BaseException as ex:  # noqa: BLE001
            return f"raises {type(ex).__name__}"
    accepted = [x for x in pool if outcome(x) in ("True", "'ACCEPT'")]
    # accepted inputs are rare among random ones: complete random inputs by varying one character (same kind) until
    # the call accepts - gives accepted inputs of every shape the sampler produces
    for x in pool[:120]:
        if len(accepted) >= 40:
            break
        done = False
        for key, val in x.items():
            if not isinstance(val, str) or not val:
                continue
            for pos in range(len(val) - 1, max(len(val) - 4, -1), -1):
                alpha = "0123456789" if val[pos].isdigit() else "ABCDEFGHIJKLMNOPQRSTUVWXYZ" if val[pos].isalpha() else ""
                for ch in alpha:
                    y = dict(x)
                    y[key] = val[:pos] + ch + val[pos + 1:]
                    if outcome(y) in ("True", "'ACCEPT'"):
                        accepted.append(y)
                        done = True
                        break
                if done:
                    break
            if done:
                break
    rnd.shuffle(accepted)
    cand_accepted = accepted[:16]
    others = [x for x in pool if x not in accepted][:3]
    t_end = time.time() + budget_s
    tried = 0
    _instrument(root)          # once, in this process: the forked children inherit the instrumented code objects
    alone_of = {}

    def alone(x):
        key = json.dumps(x, sort_keys=True, default=str)
        if key not in alone_of:
            alone_of[key] = _forked(lambda: list(_run_schedule(lambda: task.native_code(dict(x)), lambda: None, root, 0)))
        return alone_of[key]
    # accepted inputs that take DIFFERENT paths (distinct instruction counts), longest first
    by_len = {}
    for x in cand_accepted:
        by_len.setdefault(alone(x)[1], x)
    accepted = [by_len[n] for n in sorted(by_len, reverse=True)][:4]
    # pairs in an order that mixes the kinds early: accepted/accepted, rejected/accepted, accepted/rejected, ...
    pairs = []
    for i in range(4):
        for a in (accepted[i:i + 1] + others[i:i + 1]):
            for b in (accepted + others[:2]):
                if (a, b) not in pairs:
                    pairs.append((a, b))
    for a, b in pairs:
        a_alone, n_events = alone(a)[0], alone(a)[1]
        if a_alone == "crash" or not isinstance(n_events, int) or n_events == 0:
            continue
        step = max(1, n_events // 150)
        b_alone = alone(b)[0]
        for k in range(1, n_events + 1, step):
            if time.time() > t_end:
                return None
            tried += 1
            got, _, did_park, got_b = _forked(lambda a=a, b=b, k=k: list(_run_schedule(
                lambda: task.native_code(dict(a)), lambda: task.native_code(dict(b)), root, k)))
            if did_park is True and (got != a_alone or got_b != b_alone):
                return dict(a, __schedule__=dict(park_at_event=k, of=n_events, other_thread_input=b, alone=a_alone,
                                                 interleaved=got, other_alone=b_alone, other_interleaved=got_b,
                                                 schedules_tried=tried))
    return None


class SweepTask:
    """pool entry: run the schedule sweep for a base task"""

    def __new__(cls, modname, factory, args, why):
        import importlib
        t = getattr(importlib.import_module(modname), factory)(*args)
        t.sweep_of = (modname, factory, list(args))
        t.sweep_why = why
        return t


def _sweep_worker(spec):
    modname, factory, args, why, seed = spec
    try:
        t = SweepTask(modname, factory, args, why)
        t0 = time.time()
        wit = schedule_sweep(t, seed=seed)
        return dict(name=t.name, wit=wit, secs=round(time.time() - t0, 1), error=None, spec=[modname, factory, list(args)])
    except Exception as ex:  # noqa: BLE001
        return dict(name=f"{factory}{args}", wit=None, secs=0.0, error=f"{type(ex).__name__}: {ex}", spec=[modname, factory, list(args)])


class SweepReplay:
    def __init__(self, modname, factory, args):
        import importlib
        self.t = getattr(importlib.import_module(modname), factory)(*args)

    def native_agree(self, wit):
        import schwifty
        root = os.path.dirname(schwifty.__file__)
        sch = wit.pop("__schedule__")
        a = {k: v for k, v in wit.items() if not k.startswith("__")}
        b = sch["other_thread_input"]
        _instrument(root)
        alone = _forked(lambda: list(_run_schedule(lambda: self.t.native_code(dict(a)), lambda: None, root, 0)))[0]
        alone_b = _forked(lambda: list(_run_schedule(lambda: self.t.native_code(dict(b)), lambda: None, root, 0)))[0]
        r = _forked(lambda: list(_run_schedule(lambda: self.t.native_code(dict(a)), lambda: self.t.native_code(dict(b)),
                                               root, sch["park_at_event"])))
        return (r[0] == alone and r[3] == alone_b), f"interleaved: {r[0]} / other thread {r[3]}", f"alone: {alone} / {alone_b}"


class InterferenceTask:
    """factory: a base task re-run with interference on the given shared fields"""

    def __new__(cls, modname, factory, args, fields, where):
        import importlib
        t = getattr(importlib.import_module(modname), factory)(*args)
        t.interfere = {tuple(f) for f in fields}
        t.name = t.name + " [under interference on " + ", ".join(f"{a}.{b}" for a, b in t.interfere) + "]"
        t.crosscheck_samples = 0
        t.base = (modname, factory, list(args))
        t.write_sites = [tuple(w) for w in where]
        orig_agree = t.native_agree

        def native_agree(inp):
            """forced-schedule replay: is there a second input whose run, interleaved after A's shared write,
            changes A's answer?"""
            import random
            solo = t.native_code(inp)
            rnd = random.Random(1)
            for file, line in t.write_sites:
                for _ in range(150):
                    other = t.sample(rnd)
                    if other is None:
                        break
                    got, did_park = forced_schedule(lambda: t.native_code(inp), lambda: t.native_code(other), file, line)
                    if did_park and got != solo:
                        inp["__schedule__"] = dict(park_after=f"{file}:{line}", other_thread_input=other,
                                                   alone=repr(solo), interleaved=repr(got))
                        return False, repr(got), f"{solo!r} when run alone"
            return True, repr(solo), repr(solo)
        t.native_agree = native_agree
        return t


def main(seed, tier):
    from props import common
    t0 = time.time()
    results = common.run_tasks(base_specs(), seed, tier)
    # tier 1: frame obligations from the write logs
    second = []
    frame_obls = []
    for r in results:
        sw = [tuple(x) for x in r.get("shared_writes", [])]
        if r.get("error"):
            continue
        if not sw:
            frame_obls.append(dict(name=f"{r['task']}: writes only to objects allocated during the call", kind="vc",
                                   status="discharged", backend="pyvc write log (all symbolic paths)", secs=0.0,
                                   witness=None, detail=""))
        else:
            fields = sorted({(x[0], x[1]) for x in sw})
            where = sorted({(x[4], x[5]) for x in sw})
            second.append((r, fields, where))
    res2 = []
    if second:
        specs2 = [("props.c14", "InterferenceTask", (r["spec"][0], r["spec"][1], tuple(r["spec"][2]), fields, where))
                  for r, fields, where in second]
        res2 = common.run_tasks(specs2, seed, tier)
        for (r, fields, where), r2 in zip(second, res2):
            bad = [o for o in r2["obligations"] if o["status"] != "discharged" and o["kind"] != "cover"]
            if not bad and not r2.get("error"):
                frame_obls.append(dict(
                    name=f"{r['task']}: shared write(s) {fields} are unobservable (contract re-proved with every read of "
                         "these fields arbitrary)", kind="vc", status="discharged", backend="pyvc + z3 (rely/guarantee tier)",
                    secs=0.0, witness=None, detail=""))
    # tier 3 (bounded, native): where neither tier decided - a write frame broken by something the engine will not model
    # (shared iterator, shared list mutated in place) or the interference proof cut off - search for a schedule
    suspects = []
    for r in results:
        confirmed = any(o["status"] == "refuted" and str(o.get("detail", "")).startswith(("CONFIRMED", "replayed"))
                        for o in r["obligations"])
        if r.get("frame_violation") and not confirmed and r.get("spec"):
            suspects.append((r, r["frame_violation"]))
    for (r, fields, where), r2 in zip(second, res2):
        confirmed = any(o["status"] == "refuted" and str(o.get("detail", "")).startswith(("CONFIRMED", "replayed"))
                        for o in r2["obligations"])
        open_ = r2.get("error") or any(o["status"] != "discharged" for o in r2["obligations"] if o["kind"] != "cover")
        if open_ and not confirmed and r.get("spec"):
            suspects.append((r, f"shared writes {fields}: interference tier undecided"))
    sweep_obls = []
    if suspects:
        import multiprocessing as mp
        specs3 = [(r["spec"][0], r["spec"][1], tuple(r["spec"][2]), why, seed) for r, why in suspects[:16]]
        with mp.get_context("fork").Pool(min(8, len(specs3))) as pool:
            outs = pool.map(_sweep_worker, specs3, chunksize=1)
        for o in outs:
            if o["wit"] is not None:
                sch = o["wit"]["__schedule__"]
                sweep_obls.append(dict(
                    name=f"{o['name']}: a call gives the answer it gives alone under every interleaving with another call",
                    kind="bounded", status="refuted", backend="cpython (forced schedules at bytecode-instruction level, forked per schedule)",
                    secs=o["secs"], witness=o["wit"], task_spec_override=["props.c14", "SweepReplay", o["spec"]],
                    detail=f"CONFIRMED natively: parked at instruction {sch['park_at_event']} of {sch['of']} while another thread "
                           f"ran {sch['other_thread_input']}: this call {sch['interleaved']} (alone {sch['alone']}), the other "
                           f"call {sch['other_interleaved']} (alone {sch['other_alone']})"))
            else:
                sweep_obls.append(dict(
                    name=f"{o['name']}: schedule sweep (bounded) found no interleaving that changes an answer",
                    kind="bounded", status="discharged", backend="cpython (forced schedules)", secs=o["secs"], witness=None,
                    detail=o["error"] or ""))
    results3 = [dict(task=f"schedule sweep: {ob['name'][:60]}", obligations=[ob], functions={}, files={}, paths=0, error=None,
                     spec=ob.pop("task_spec_override", None)) for ob in sweep_obls]
    results2 = [dict(task="frame obligations", obligations=frame_obls, functions={}, files={}, paths=0, error=None, spec=None)]
    results2 += results3
    # keep the functional obligations of the base tasks out of the count (they belong to C01..C08): only errors matter
    for r in results:
        r["obligations"] = [o for o in r["obligations"] if o["status"] != "discharged"]
    return common.finish(
        "C14", results + results2 + res2, t0, seed, tier,
        assumptions=["A8 non-interference meta-theorem: calls that write only to objects they allocated are serial-"
                     "equivalent under every interleaving; read-only use of re patterns, pycountry (after its first "
                     "load), sorted, json and the registries is thread safe; callers do not share a Random object",
                     "threading.local attributes are per thread (assumed contract of threading.local)",
                     "the call trees analysed are those of the tasks listed under coverage.tasks (validation with and "
                     "without national check for sample countries, all German methods, all national algorithms, BIC, "
                     "generation); an enumeration of interleavings is NOT claimed"],
        extra_cov=dict(call_trees=len(results), second_tier=len(second)),
        not_proved_note="sufficient condition only (write frames + rely/guarantee re-proof); refutations are replayed "
                        "under a forced two-thread schedule")
