"""C14 - concurrent use gives every caller the answer it would get alone.

The family has no schedule quantifier; what is proved is a SUFFICIENT condition (DESIGN C14):
 tier 1  every call tree writes only to objects allocated during the call (then two calls share no written location
         and every interleaving is observationally a serial order);
 tier 2  (rely/guarantee) where tier 1 fails, the functional contract is re-proved with every read of a
         shared-written field returning an ARBITRARY value (another thread may have written it in between); if it
         still holds the shared write is unobservable; if not, the model names the victim input and the pair is
         replayed natively under a FORCED schedule (thread A parked right after its write, thread B runs to
         completion on the same object, A resumes)."""
from __future__ import annotations

import sys
import threading
import time


def base_specs():
    from props import c07
    from contracts import national as N
    specs = [("props.c07", "MethodTask", (m,)) for m in c07.methods()]
    specs += [("props.c06", "NatTask", (cc,)) for cc in N.COUNTRIES_22]
    specs += [("props.ibantasks", "IbanTask", (cc, "construct")) for cc in ("DE", "NO", "GB", "IT", "None")]
    specs += [("props.bictasks", "BicTask", ("construct",))]
    specs += [("props.c08", "GenerateTask", (cc,)) for cc in ("DE", "ES", "NL")]
    from props import lookuptasks
    specs += lookuptasks.specs()
    specs += [("props.c13", "RandomTask", v) for v in (("DE", 1, ""), ("PL", 1, "branch_code"), ("NO", 0, ""), ("GB", 1, ""))]
    specs += [("props.c11", "DecomposeTask", ("BR",)), ("props.c02", "FromBbanTask", ("MT",))]
    # countries whose table entry lacks optional keys (no published positions): reads with defaults must stay reads
    from props.ibantasks import table
    bare = [cc for cc in sorted(table()) if "positions" not in table()[cc]][:2]
    specs += [("props.c11", "DecomposeTask", (cc,)) for cc in bare]
    specs += [("props.c13", "RandomTask", (cc, 0, "")) for cc in bare[:1]]
    # a country with published positions but without bank entries (absent from the country index)
    from schwifty import registry
    bankless = [cc for cc in sorted(table()) if cc not in registry.get("country") and "positions" in table()[cc]][:1]
    specs += [("props.c13", "RandomTask", (cc, 1, "")) for cc in bankless]
    return specs


def forced_schedule(run_a, run_b, file, line):
    """thread A runs run_a() and is parked when it reaches a line after `line` in `file` (i.e. right after the
    shared write); the caller's thread then runs run_b() to completion; A resumes.  returns A's result"""
    parked, resume = threading.Event(), threading.Event()
    res = {}

    def tracer(frame, event, arg):
        if frame.f_code.co_filename == file:
            def local(frame, event, arg):
                if event == "line" and frame.f_lineno > line and not parked.is_set():
                    parked.set()
                    resume.wait(10)
                return local
            if frame.f_code.co_firstlineno <= line:
                return local
        return tracer

    def A():
        sys.settrace(tracer)
        try:
            res["A"] = run_a()
        finally:
            sys.settrace(None)
    ta = threading.Thread(target=A)
    ta.start()
    if parked.wait(10):
        res["B"] = run_b()
    resume.set()
    ta.join(20)
    return res.get("A"), parked.is_set()


class InterferenceTask:
    """factory: a base task re-run with interference on the given shared fields"""

    def __new__(cls, modname, factory, args, fields, where):
        import importlib
        t = getattr(importlib.import_module(modname), factory)(*args)
        t.interfere = {tuple(f) for f in fields}
        t.name = t.name + " [under interference on " + ", ".join(f"{a}.{b}" for a, b in t.interfere) + "]"
        t.crosscheck_samples = 0
        t.base = (modname, factory, list(args))
        t.write_sites = [tuple(w) for w in where]
        orig_agree = t.native_agree

        def native_agree(inp):
            """forced-schedule replay: is there a second input whose run, interleaved after A's shared write,
            changes A's answer?"""
            import random
            solo = t.native_code(inp)
            rnd = random.Random(1)
            for file, line in t.write_sites:
                for _ in range(150):
                    other = t.sample(rnd)
                    if other is None:
                        break
                    got, did_park = forced_schedule(lambda: t.native_code(inp), lambda: t.native_code(other), file, line)
                    if did_park and got != solo:
                        inp["__schedule__"] = dict(park_after=f"{file}:{line}", other_thread_input=other,
                                                   alone=repr(solo), interleaved=repr(got))
                        return False, repr(got), f"{solo!r} when run alone"
            return True, repr(solo), repr(solo)
        t.native_agree = native_agree
        return t


def main(seed, tier):
    from props import common
    t0 = time.time()
    results = common.run_tasks(base_specs(), seed, tier)
    # tier 1: frame obligations from the write logs
    second = []
    frame_obls = []
    for r in results:
        sw = [tuple(x) for x in r.get("shared_writes", [])]
        if r.get("error"):
            continue
        if not sw:
            frame_obls.append(dict(name=f"{r['task']}: writes only to objects allocated during the call", kind="vc",
                                   status="discharged", backend="pyvc write log (all symbolic paths)", secs=0.0,
                                   witness=None, detail=""))
        else:
            fields = sorted({(x[0], x[1]) for x in sw})
            where = sorted({(x[4], x[5]) for x in sw})
            second.append((r, fields, where))
    res2 = []
    if second:
        specs2 = [("props.c14", "InterferenceTask", (r["spec"][0], r["spec"][1], tuple(r["spec"][2]), fields, where))
                  for r, fields, where in second]
        res2 = common.run_tasks(specs2, seed, tier)
        for (r, fields, where), r2 in zip(second, res2):
            bad = [o for o in r2["obligations"] if o["status"] != "discharged" and o["kind"] != "cover"]
            if not bad and not r2.get("error"):
                frame_obls.append(dict(
                    name=f"{r['task']}: shared write(s) {fields} are unobservable (contract re-proved with every read of "
                         "these fields arbitrary)", kind="vc", status="discharged", backend="pyvc + z3 (rely/guarantee tier)",
                    secs=0.0, witness=None, detail=""))
    results2 = [dict(task="frame obligations", obligations=frame_obls, functions={}, files={}, paths=0, error=None, spec=None)]
    # keep the functional obligations of the base tasks out of the count (they belong to C01..C08): only errors matter
    for r in results:
        r["obligations"] = [o for o in r["obligations"] if o["status"] != "discharged"]
    return common.finish(
        "C14", results + results2 + res2, t0, seed, tier,
        assumptions=["A8 non-interference meta-theorem: calls that write only to objects they allocated are serial-"
                     "equivalent under every interleaving; read-only use of re patterns, pycountry (after its first "
                     "load), sorted, json and the registries is thread safe; callers do not share a Random object",
                     "threading.local attributes are per thread (assumed contract of threading.local)",
                     "the call trees analysed are those of the tasks listed under coverage.tasks (validation with and "
                     "without national check for sample countries, all German methods, all national algorithms, BIC, "
                     "generation); an enumeration of interleavings is NOT claimed"],
        extra_cov=dict(call_trees=len(results), second_tier=len(second)),
        not_proved_note="sufficient condition only (write frames + rely/guarantee re-proof); refutations are replayed "
                        "under a forced two-thread schedule")
