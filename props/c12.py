"""C12 - bank-code <-> BIC lookups agree with the bundled registry and with each other.

 - selection rule of BIC.from_bank_code and the candidate order/filter of BIC.candidates_from_bank_code: the real
   bodies are executed symbolically (pyvc) on registry groups of up to K abstract entries with SYMBOLIC BIC texts and
   primary flags: unbounded in content, BOUNDED in the size of the group (K = 3 / 4);
 - the bundled registry: every (country, bank code) key, every BIC and a set of unlisted pairs are evaluated natively
   against the sidecar spec (exhaustive for the data this tree bundles) - incl. build_index == grouping spec,
   invertibility and the IBAN-side accessors."""
from __future__ import annotations

import os
import time

import z3

from contracts import bic as B
from contracts import common as CC
from pyvc import models, task as T
from pyvc.values import Raised, SBool, SObj, SStr, Unsupported, concretize, is_sym, lift_str, payload


def m_sorted_symbolic(I, it, key=None, reverse=False):
    """model of sorted(): a stable insertion sort whose comparisons fork (small lists only); assumed contract of
    sorted: stable, returns a permutation, order of equal keys preserved (reverse=True keeps stability too)"""
    import ast
    items = I.iterate(it)
    keyed = [(I.call(key, [x], {}) if key is not None else x, x) for x in items]
    if not any(models.deep_sym(k) or isinstance(k, SObj) for k, _ in keyed):
        return models.m_sorted(I, it, key=key, reverse=reverse)
    if len(items) > 5:
        raise Unsupported("sorted() over more than 5 symbolic items")

    def less(a, b):
        a, b = payload(a), payload(b)
        if isinstance(a, (bool, SBool)) and isinstance(b, (bool, SBool)):
            fa = z3.BoolVal(a) if isinstance(a, bool) else a.t
            fb = z3.BoolVal(b) if isinstance(b, bool) else b.t
            return I.truthy(concretize(SBool(z3.And(z3.Not(fa), fb))))
        return I.truthy(I.compare(ast.Lt(), a, b))
    out = []
    for k, x in keyed:
        pos = len(out)
        # stable: insert after all elements that are not greater (reverse: not smaller)
        while pos > 0 and (less(out[pos - 1][0], k) if reverse else less(k, out[pos - 1][0])):
            pos -= 1
        out.insert(pos, (k, x))
    return I.alloc([x for _, x in out])


def m_itemgetter_call(I, getter, obj):
    raise Unsupported("itemgetter")


class CandidatesTask(T.Task):
    """BIC.candidates_from_bank_code on a registry group of k abstract entries: the result is [BIC(e.bic) for e in the
    group, primary entries first (stable), entries with an empty BIC dropped]"""

    def __init__(self, k):
        self.k = int(k)
        self.name = f"BIC.candidates_from_bank_code on a group of {k} entries"
        self.contracts = {"schwifty.common.clean": CC.clean_contract}

    def setup(self, I):
        models.BUILTIN_MODELS[sorted] = m_sorted_symbolic
        self.entries = []
        inp = {}
        for i in range(self.k):
            n = 8 if i % 2 == 0 else 11
            chars = [z3.Int(f"e{i}_{j}") for j in range(n)]
            empty = z3.Bool(f"e{i}_empty")
            prim = z3.Bool(f"e{i}_primary")
            for c in chars:
                I.assumptions += [CC.Fix(c), CC.fix_facts(c)]
            # well_formed(bank entry): the BIC is empty or valid (C17)
            acc, _ = T.spec_formula(I, B.accept_bic, [SStr(chars), False])
            I.assumptions.append(acc)
            inp[f"bic{i}"] = SStr(chars)
            inp[f"empty{i}"] = SBool(empty)
            inp[f"primary{i}"] = SBool(prim)
        return inp

    def group(self, I, inp):
        out = []
        for i in range(self.k):
            bic = "" if I.branch(inp[f"empty{i}"]) else inp[f"bic{i}"]
            out.append(I.alloc({"bic": bic, "primary": inp[f"primary{i}"], "bank_code": "K", "country_code": "DE",
                                "name": f"n{i}", "short_name": f"s{i}"}))
        return I.alloc(out)

    def code(self, I, inp):
        from schwifty import BIC, registry
        grp = self.group(I, inp)
        index = I.alloc({("DE", "K"): grp})

        def get_contract(I2, name):
            if name == "bank_code":
                return index
            return registry.get(name)
        I.contracts["schwifty.registry.get"] = get_contract
        r = I.call(I.getattr(BIC, "candidates_from_bank_code"), ["DE", "K"], {})
        return ("LIST", [payload(x) for x in r], grp)

    def custom_obligations(self, I, inp, code_paths, cobs):
        out = []
        for i, (path, o) in enumerate(cobs):
            if isinstance(o, T.Escape):
                continue
            if isinstance(o, T.ExcTag):
                out.append((f"path {i}: a listed pair does not raise ({o.name})", path["pc"], z3.BoolVal(False)))
                continue
            _, got, grp = o
            I.pc = list(path["pc"])      # evaluate the expected order under this path's condition
            def flag(e):
                return e["primary"].t if is_sym(e["primary"]) else z3.BoolVal(bool(e["primary"]))
            order = []
            for e in grp:
                pos = len(order)
                # e moves in front of the entries that are certainly non-primary while e is certainly primary
                while pos > 0 and I.entails(z3.And(flag(e), z3.Not(flag(order[pos - 1])))):
                    pos -= 1
                order.insert(pos, e)
            decided = True
            want = [e["bic"] for e in order if not (isinstance(e["bic"], str) and e["bic"] == "")]
            I.pc = []
            ok = decided and len(got) == len(want)
            eqs = [T.as_formula(T.obs_eq(I, g, w)) for g, w in zip(got, want)] if ok else [z3.BoolVal(False)]
            out.append((f"path {i}: candidates = non-empty BICs of the group, primary entries first, order kept", path["pc"],
                        z3.And(*eqs) if eqs else z3.BoolVal(True)))
        return out

    def native_agree(self, inp):
        from schwifty import BIC, registry
        grp = [{"bic": "" if inp[f"empty{i}"] else inp[f"bic{i}"], "primary": bool(inp[f"primary{i}"]), "bank_code": "K",
                "country_code": "DE", "name": f"n{i}", "short_name": f"s{i}"} for i in range(self.k)]
        index = registry.get("bank_code")
        index[("DE", "K")] = grp
        try:
            got = T.native_obs(lambda: [str(b) for b in BIC.candidates_from_bank_code("DE", "K")])
        finally:
            del index[("DE", "K")]
        want = spec_candidates(grp)
        return got == want, got, want

    def sample(self, rnd):
        return None


class SelectionTask(T.Task):
    """BIC.from_bank_code given k candidates with symbolic texts (lengths 8/11 mixed): the result is one of the
    candidates: an 8-character one if any, else one with branch XXX if any, else the first; no candidate ->
    InvalidBankCode"""

    def __init__(self, shape):
        self.shape = tuple(int(x) for x in shape.split(",")) if shape else ()
        self.name = f"BIC.from_bank_code on candidates of lengths {list(self.shape)}"
        self.contracts = {"schwifty.common.clean": CC.clean_contract}

    def setup(self, I):
        models.BUILTIN_MODELS[sorted] = m_sorted_symbolic
        inp = {}
        for i, n in enumerate(self.shape):
            chars = [z3.Int(f"c{i}_{j}") for j in range(n)]
            for c in chars:
                I.assumptions += [CC.Fix(c), CC.fix_facts(c)]
            inp[f"cand{i}"] = SStr(chars)
        return inp

    def code(self, I, inp):
        from schwifty import BIC
        cands = [I.call(BIC, [inp[f"cand{i}"]], {"allow_invalid": True}) for i in range(len(self.shape))]
        lst = I.alloc(list(cands))
        I.contracts["schwifty.bic.BIC.candidates_from_bank_code"] = lambda I2, cls, cc, code: lst
        r = I.call(I.getattr(BIC, "from_bank_code"), ["DE", "K"], {})
        return ("PICK", payload(r))

    def custom_obligations(self, I, inp, code_paths, cobs):
        cands = [inp[f"cand{i}"] for i in range(len(self.shape))]
        eight = [c for c in cands if len(c) == 8]
        out = []
        for i, (path, o) in enumerate(cobs):
            if isinstance(o, T.Escape):
                continue
            if isinstance(o, T.ExcTag):
                out.append((f"path {i}: raises InvalidBankCode iff there is no candidate", path["pc"],
                            z3.BoolVal(o.name == "InvalidBankCode" and not cands)))
                continue
            r = o[1]
            member = z3.Or(*[T.as_formula(T.obs_eq(I, r, c)) for c in cands]) if cands else z3.BoolVal(False)
            out.append((f"path {i}: the chosen BIC is one of the candidates", path["pc"], member))
            if len(cands) == 1:
                rule = T.as_formula(T.obs_eq(I, r, cands[0]))
            elif eight:
                rule = z3.Or(*[T.as_formula(T.obs_eq(I, r, c)) for c in eight])
            else:
                def is_xxx(c):
                    return z3.And(*[c.chars[8 + j] == 88 for j in range(3)])
                any_xxx = z3.Or(*[is_xxx(c) for c in cands])
                pick_xxx = z3.Or(*[z3.And(is_xxx(c), T.as_formula(T.obs_eq(I, r, c))) for c in cands])
                rule = z3.If(any_xxx, pick_xxx, T.as_formula(T.obs_eq(I, r, cands[0])))
            out.append((f"path {i}: an 8-character candidate if any, else one with branch XXX, else the first", path["pc"], rule))
        return out

    def native_agree(self, inp):
        from unittest import mock
        from schwifty import BIC
        cands = [BIC(inp[f"cand{i}"], allow_invalid=True) for i in range(len(self.shape))]
        with mock.patch.object(BIC, "candidates_from_bank_code", classmethod(lambda cls, cc, code: list(cands))):
            got = T.native_obs(lambda: str(BIC.from_bank_code("DE", "K")))
        allowed = spec_choice([str(c) for c in cands])
        if allowed is None:
            return got == T.ExcTag("InvalidBankCode"), got, "InvalidBankCode"
        return got in allowed, got, sorted(allowed)

    def sample(self, rnd):
        return None


class SelectionProofTask(T.Task):
    """UNBOUNDED: BIC.from_bank_code over an ABSTRACT candidate list (any length, any valid BICs): the result is a
    member; an 8-character one if any, else one with branch XXX if any, else the first; no candidate ->
    InvalidBankCode.  (pyvc abstract lists: filters are evaluated for one generic element by nested exploration;
    sorted() is the assumed contract 'a permutation', so its last element is a member.)"""
    name = "BIC.from_bank_code selection rule (abstract candidate list, all lengths)"
    skip_cover = True

    def setup(self, I):
        from pyvc import alist as L
        from pyvc import alist_hooks
        alist_hooks.install()
        self.n = z3.Int("n_candidates")
        self.cand = z3.Function("candidate", z3.IntSort(), L.Elem)
        I.assumptions.append(self.n >= 0)
        j = z3.Int("jv")
        self.valid = lambda e: z3.Or(L.ElemLen(e) == 8, L.ElemLen(e) == 11)
        # precondition (contract of candidates_from_bank_code, C04/C17): every candidate is a valid BIC: 8 or 11 long
        I.assumptions.append(z3.ForAll([j], z3.Implies(z3.And(j >= 0, j < self.n), self.valid(self.cand(j)))))
        return {}

    def code(self, I, inp):
        from pyvc import alist as L
        from schwifty import BIC
        xs = L.AList(BIC, self.n, lambda j: self.cand(j), name="candidates")
        xs.valid = self.valid
        I.contracts["schwifty.bic.BIC.candidates_from_bank_code"] = lambda I2, cls, cc, code: xs
        I.contracts["schwifty.common.clean"] = CC.clean_contract
        r = I.call(I.getattr(BIC, "from_bank_code"), ["DE", "K"], {})
        return ("PICK", r)

    def custom_obligations(self, I, inp, code_paths, cobs):
        from pyvc import alist as L
        n, cand = self.n, self.cand
        j = z3.Int("jq")

        def xxx(e):
            return z3.And(L.ElemLen(e) == 11, *[L.ElemAt(e, z3.IntVal(8 + k)) == 88 for k in range(3)])
        any8 = z3.Exists([j], z3.And(j >= 0, j < n, L.ElemLen(cand(j)) == 8))
        anyx = z3.Exists([j], z3.And(j >= 0, j < n, xxx(cand(j))))
        out = []
        for i, (path, o) in enumerate(cobs):
            pc = path["pc"]
            if isinstance(o, T.Escape):
                continue
            if isinstance(o, T.ExcTag):
                out.append((f"path {i}: raises {o.name}: only InvalidBankCode, and only when there is no candidate", pc,
                            z3.And(z3.BoolVal(o.name == "InvalidBankCode"), n == 0)))
                continue
            r = o[1]
            t = getattr(r, "elem_term", None)
            if t is None:
                out.append((f"path {i}: the result is not an element of the candidate list", pc, z3.BoolVal(False)))
                continue
            out.append((f"path {i}: the chosen BIC is one of the candidates", pc,
                        z3.Exists([j], z3.And(j >= 0, j < n, cand(j) == t))))
            out.append((f"path {i}: an 8-character candidate if there is one", pc,
                        z3.Implies(z3.And(n > 1, any8), L.ElemLen(t) == 8)))
            out.append((f"path {i}: else one with branch XXX if there is one", pc,
                        z3.Implies(z3.And(n > 1, z3.Not(any8), anyx), xxx(t))))
            out.append((f"path {i}: else the first candidate", pc,
                        z3.Implies(z3.Or(n == 1, z3.And(z3.Not(any8), z3.Not(anyx))), t == cand(z3.IntVal(0)))))
        return out

    def native_agree(self, inp):
        return True, None, None

    def sample(self, rnd):
        return None


class CandidatesProofTask(T.Task):
    """UNBOUNDED (modulo the assumed contract of sorted): BIC.candidates_from_bank_code on an ABSTRACT registry group
    (any number of well-formed entries): the result is [BIC(e.bic) for e in sorted(group, key=primary, reverse=True)
    if e.bic] - the sort key, the filter and the map are evaluated for one generic entry; constructing the BIC of a
    well-formed entry never raises."""
    name = "BIC.candidates_from_bank_code (abstract registry group, all sizes)"
    skip_cover = True

    def setup(self, I):
        from pyvc import alist as L
        from pyvc import alist_hooks
        from pyvc.values import SFn
        alist_hooks.install()
        self.n = z3.Int("n_entries")
        self.ent = z3.Function("entry", z3.IntSort(), L.Elem)
        self.primary = z3.Function("EntryPrimary", L.Elem, z3.BoolSort())
        I.assumptions.append(self.n >= 0)
        # well_formed(bank entry) (C17): the BIC text is empty or a valid BIC - as a formula over a generic element
        g0 = z3.Const("wf_generic", L.Elem)
        p0 = self.text(I, g0)
        acc, _ = T.spec_formula(I, B.accept_bic, [p0, False])
        self.wf = lambda e, acc=acc, g0=g0: z3.Or(L.ElemLen(e) == 0, z3.substitute(acc, (g0, e)))
        return {}

    def text(self, I, e):
        from pyvc import alist as L
        from pyvc.values import SFn
        seen = {}

        def at(i, e=e):
            i = z3.simplify(i) if z3.is_expr(i) else z3.IntVal(i)
            t = L.ElemAt(e, i)
            if t.get_id() not in seen:
                seen[t.get_id()] = t
                I.assumptions.append(z3.Implies(z3.And(i >= 0, i < L.ElemLen(e)), z3.And(CC.Fix(t), CC.fix_facts(t))))
            return t
        p = SFn(L.ElemLen(e), at, f"bic({e})")
        p.all_fix = True
        p.upper_closed = True
        I.assumptions.append(L.ElemLen(e) >= 0)
        return p

    def make_element(self, I, e):
        I.assumptions.append(self.wf(e))
        d = {"bic": self.text(I, e), "primary": SBool(self.primary(e)), "name": "n", "short_name": "s",
             "bank_code": "K", "country_code": "DE"}
        d = I.alloc(d)
        self.elements[id(d)] = e
        return d

    def describe_map(self, results):
        from schwifty import BIC
        bad = []
        for el, v in results:
            if not (isinstance(v, SObj) and v.cls is BIC and payload(v) is el["bic"]):
                bad.append(repr(v)[:60])
        return "BIC(entry.bic)" if not bad else f"unexpected map results {bad[:2]}"

    def code(self, I, inp):
        from pyvc import alist as L
        from schwifty import BIC, registry
        self.elements = {}
        grp = L.AList(dict, self.n, lambda j: self.ent(j), name="group")
        grp.make_element = self.make_element
        grp.describe_map = self.describe_map
        index = I.alloc({("DE", "K"): grp})
        I.contracts["schwifty.registry.get"] = lambda I2, name: index if name == "bank_code" else registry.get(name)
        I.contracts["schwifty.common.clean"] = CC.clean_contract
        r = I.call(I.getattr(BIC, "candidates_from_bank_code"), ["DE", "K"], {})
        return ("RESULT", r)

    def custom_obligations(self, I, inp, code_paths, cobs):
        from pyvc import alist as L
        out = []
        q = z3.Const("q_entry", L.Elem)
        for i, (path, o) in enumerate(cobs):
            pc = path["pc"]
            if isinstance(o, (T.Escape, T.ExcTag)):
                out.append((f"path {i}: a listed pair does not raise ({o!r})", pc, z3.BoolVal(False)))
                continue
            r = o[1]
            ok_shape = isinstance(r, L.AList) and r.base is not None and getattr(r.base, "sort_key", None) is not None \
                and r.base.base is not None and r.base.base.base is None
            out.append((f"path {i}: the result is a filtered map of sorted(group, key=..., reverse=...)", pc, z3.BoolVal(ok_shape)))
            if not ok_shape:
                continue
            g, kv, rev = r.base.sort_key
            out.append((f"path {i}: the sort key is the entry's primary flag, descending (primary entries first; sorted is "
                        "stable, so the listed order is kept within each class)", pc,
                        z3.And(z3.BoolVal(rev and isinstance(kv, SBool)),
                               (kv.t == self.primary(g)) if isinstance(kv, SBool) else z3.BoolVal(False))))
            out.append((f"path {i}: an entry is kept exactly when its BIC is non-empty", pc,
                        z3.Implies(self.wf(q), r.pred(q) == (L.ElemLen(q) > 0))))
            out.append((f"path {i}: each kept entry is mapped to BIC(entry.bic), and constructing it never raises "
                        f"(map: {getattr(r, 'map_desc', None)}; error: {getattr(r, 'map_error', None)})", pc,
                        z3.BoolVal(getattr(r, "map_desc", None) == "BIC(entry.bic)" and getattr(r, "map_error", 1) is None)))
        return out

    def native_agree(self, inp):
        return True, None, None

    def sample(self, rnd):
        return None


class BuildIndexTask(T.Task):
    """UNBOUNDED (modulo the grouping meta-theorem of pyvc/agroup.py): registry.build_index(base, index, key=...,
    accumulate=True, **predicate) on an ABSTRACT bank list (any number of entries, field values symbolic texts of any
    length): the loop body is executed for ONE generic entry on all its paths; every path either leaves the
    accumulator alone or appends the entry (itself or an equal copy) under the key built from its own fields; an entry is included
    exactly when it satisfies the predicate and every component of its key is non-empty.  The index saved is the
    frozen accumulator, saved once, under the requested name."""
    skip_cover = True
    crosscheck_samples = 300
    FIELDS = ("country_code", "bank_code", "bic")

    def __init__(self, key, pred=""):
        self.key = tuple(key.split("+")) if "+" in key else key
        self.pred = pred
        self.name = f"registry.build_index(key={self.key!r}, accumulate=True{', primary=True' if pred else ''}) (abstract bank list)"

    def setup(self, I):
        from pyvc import agroup
        from pyvc import alist as L
        agroup.install()
        self.n = z3.Int("n_base")
        self.ent = z3.Function("base_entry", z3.IntSort(), L.Elem)
        self.flen = {k: z3.Function(f"FieldLen_{k}", L.Elem, z3.IntSort()) for k in self.FIELDS}
        self.fat = {k: z3.Function(f"FieldAt_{k}", L.Elem, z3.IntSort(), z3.IntSort()) for k in self.FIELDS}
        self.primary = z3.Function("EntryPrimary", L.Elem, z3.BoolSort())
        I.assumptions.append(self.n >= 0)
        return {}

    def text(self, I, e, k):
        from pyvc.values import SFn
        p = SFn(self.flen[k](e), (lambda i, e=e, k=k: self.fat[k](e, z3.simplify(i) if z3.is_expr(i) else z3.IntVal(i))), f"{k}({e})")
        p.field = (k, e)
        I.assumptions.append(self.flen[k](e) >= 0)
        return p

    def make_element(self, I, e):
        d = {k: self.text(I, e, k) for k in self.FIELDS}
        d["primary"] = SBool(self.primary(e))
        d["name"] = "n"
        return I.alloc(d)

    def code(self, I, inp):
        from pyvc import alist as L
        from schwifty import registry
        base = L.AList(dict, self.n, lambda j: self.ent(j), name="base")
        base.make_element = self.make_element
        self.base = base
        saved = []

        def get_contract(I2, name):
            if name != "probe_base":
                raise Unsupported(f"registry.get({name!r}) inside build_index")
            return base

        def save_contract(I2, name, data):
            saved.append((name, data))
            return data
        I.contracts["schwifty.registry.get"] = get_contract
        I.contracts["schwifty.registry.save"] = save_contract        # the writer of registry._registry (import time)
        kw = {"key": self.key, "accumulate": True}
        if self.pred:
            kw[self.pred] = True
        r = I.call(registry.build_index, ["probe_base", "probe_index"], kw)
        return ("SAVED", r, list(saved))

    def custom_obligations(self, I, inp, code_paths, cobs):
        from pyvc import agroup
        from pyvc import alist as L
        out = []
        q = z3.Const("q_entry", L.Elem)
        keys = self.key if isinstance(self.key, tuple) else (self.key,)
        for i, (path, o) in enumerate(cobs):
            pc = path["pc"]
            if isinstance(o, (T.Escape, T.ExcTag)):
                out.append((f"path {i}: build_index does not raise ({o!r})", pc, z3.BoolVal(False)))
                continue
            _, r, saved = o
            ok = r is None and len(saved) == 1 and saved[0][0] == "probe_index" and isinstance(saved[0][1], agroup.GroupAcc) \
                and saved[0][1].frozen and len(saved[0][1].loops) == 1 and saved[0][1].loops[0]["src"] is self.base
            out.append((f"path {i}: exactly one index is saved, under the requested name: the accumulator of one loop over the base list", pc, z3.BoolVal(ok)))
            if not ok:
                continue
            loop = saved[0][1].loops[0]
            g = loop["g"]
            shape = True
            for pc_rel, key, is_el in loop["cases"]:
                comps = key if isinstance(self.key, tuple) else (key,)
                shape = shape and is_el and isinstance(key, tuple) == isinstance(self.key, tuple) and len(comps) == len(keys) and \
                    all(getattr(c, "field", None) is not None and c.field[0] == k and c.field[1].eq(g) for c, k in zip(comps, keys))
            out.append((f"path {i}: every append puts the entry (or an equal copy) under the key made of its own {keys} fields "
                        f"({len(loop['cases'])} appending paths of {loop['n_paths']})", pc, z3.BoolVal(bool(shape))))
            incl = z3.substitute(z3.Or(*[c[0] for c in loop["cases"]]) if loop["cases"] else z3.BoolVal(False), (g, q))
            want = z3.And(*[self.flen[k](q) > 0 for k in keys], *([self.primary(q)] if self.pred else []))
            hyp = [self.flen[k](q) >= 0 for k in self.FIELDS]
            out.append((f"path {i}: an entry is indexed exactly when every key component is non-empty"
                        + (" and it is primary" if self.pred else ""), pc + hyp, incl == want))
        return out

    # bounded native cross-check of the whole statement, grouping meta-theorem included
    def sample(self, rnd):
        n = rnd.choice([0, 1, 2, 3, 4, 5, 6])
        base = [{"country_code": rnd.choice(["", "DE", "FR"]), "bank_code": rnd.choice(["", "1", "2", "10"]),
                 "bic": rnd.choice(["", "AAAADEFF", "BBBBFRPPXXX"]), "primary": rnd.random() < 0.5, "name": f"n{i}"} for i in range(n)]
        return {"base": base}

    def native_agree(self, inp):
        import copy
        from schwifty import registry
        base = inp.get("base")
        if base is None:
            return True, None, None
        keys = self.key if isinstance(self.key, tuple) else (self.key,)
        want = {}
        for e in base:
            if all(e[k] for k in keys) and (not self.pred or e[self.pred] is True):
                want.setdefault(tuple(e[k] for k in keys) if isinstance(self.key, tuple) else e[self.key], []).append(e)
        snap = copy.deepcopy(base)
        try:
            registry.save("probe_base", base)
            kw = {self.pred: True} if self.pred else {}
            registry.build_index("probe_base", "probe_index", key=self.key, accumulate=True, **kw)
            got = registry.get("probe_index")
            ok = got == want and list(got) == list(want) and type(got) is dict and base == snap
            return ok, repr(got)[:300], repr(want)[:300]
        finally:
            registry._registry.pop("probe_base", None)
            registry._registry.pop("probe_index", None)


# ------------------------------------------------------------------------------------------ bundled registry
def spec_candidates(group):
    prim = [e for e in group if e.get("primary")]
    rest = [e for e in group if not e.get("primary")]
    return [e["bic"] for e in prim + rest if e["bic"]]


def spec_choice(cands):
    if not cands:
        return None
    if len(cands) == 1:
        return {cands[0]}
    eight = {c for c in cands if len(c) == 8}
    if eight:
        return eight
    xxx = {c for c in cands if c[8:11] == "XXX"}
    return xxx or {cands[0]}


def registry_evaluation():
    from schwifty import BIC, IBAN, registry
    from schwifty.exceptions import InvalidBankCode, SchwiftyException
    from props.c17 import found_again  # noqa: F401
    banks = registry.get("bank")
    table = registry.get("iban")
    problems = []
    # build_index == grouping spec
    want = {}
    for e in banks:
        k = (e["country_code"], e["bank_code"])
        if k and all(k):
            want.setdefault(k, []).append(e)
    index = registry.get("bank_code")
    if index != want:
        problems.append(("build_index(bank_code) differs from the grouping of the bank list in list order", None))
    want_bic = {}
    for e in banks:
        if e["bic"]:
            want_bic.setdefault(e["bic"], []).append(e)
    if registry.get("bic") != want_bic:
        problems.append(("build_index(bic) differs from the grouping spec", None))
    n_keys = 0
    for (cc, code), group in want.items():
        n_keys += 1
        exp = spec_candidates(group)
        try:
            got = [str(b) for b in BIC.candidates_from_bank_code(cc, code)]
        except SchwiftyException as ex:
            got = type(ex).__name__
        if got != exp:
            problems.append((f"candidates_from_bank_code({cc!r}, {code!r})", dict(got=got, expected=exp)))
            continue
        try:
            one = str(BIC.from_bank_code(cc, code))
        except InvalidBankCode:
            one = None
        except Exception as ex:  # noqa: BLE001
            one = f"ESCAPE {type(ex).__name__}"
        allowed = spec_choice(exp)
        if (allowed is None) != (one is None) or (allowed is not None and one not in allowed):
            problems.append((f"from_bank_code({cc!r}, {code!r})", dict(got=one, allowed=sorted(allowed or []))))
        for b in set(exp):
            x = BIC(b)
            if code not in x.domestic_bank_codes or not x.exists:
                problems.append((f"BIC({b!r}) does not list bank code {code!r} / does not exist", None))
        if len(problems) > 5:
            break
    # unlisted pairs
    n_unlisted = 0
    for cc, code in [("DE", "01010101"), ("XX", "1"), ("DE", ""), ("", ""), ("FR", "99999"), ("GB", "ZZZZ")] + \
                    [(cc, "0" * 3 + "9" * 2) for cc in sorted(table)[:40]]:
        if (cc, code) in want:
            continue
        n_unlisted += 1
        for fn in (BIC.candidates_from_bank_code, BIC.from_bank_code):
            try:
                fn(cc, code)
                problems.append((f"{fn.__name__}({cc!r}, {code!r}) of an unlisted pair did not raise", None))
            except InvalidBankCode:
                pass
            except Exception as ex:  # noqa: BLE001
                problems.append((f"{fn.__name__}({cc!r}, {code!r}) raised {type(ex).__name__}", None))
    # IBAN-side accessors: an IBAN built around each key (first per country x 40) and unlisted ones
    n_iban = 0
    per_cc = {}
    for (cc, code), group in want.items():
        if cc not in table:
            continue
        per_cc[cc] = per_cc.get(cc, 0) + 1
        s = table[cc]
        pos = s.get("positions", {})
        fields = s.get("bic_lookup_components", ["bank_code"])
        cl = CC.classes(s["bban_spec"])
        bban = ["A" if k == "a" else "0" for k in cl]
        off = 0
        for f in fields:
            a, b = pos.get(f, [0, 0])
            bban[a:b] = code[off:off + (b - a)]
            off += b - a
        if off != len(code):
            continue
        x = IBAN.from_bban(cc, "".join(bban))
        n_iban += 1
        exp = spec_candidates(group)
        allowed = spec_choice(exp)
        bic = T.native_obs(lambda: x.bic)
        if isinstance(bic, (T.ExcTag, T.Escape)):
            problems.append((f"IBAN({x!s}).bic raised", repr(bic)))
        elif (bic is None) != (allowed is None) or (bic is not None and str(bic) not in allowed):
            problems.append((f"IBAN({x!s}).bic", dict(got=str(bic), allowed=sorted(allowed or []))))
        acc = T.native_obs(lambda: (x.bank, x.bank_name, x.bank_short_name))
        if acc != (group[0], group[0]["name"], group[0]["short_name"]):
            problems.append((f"IBAN({x!s}).bank / bank_name / bank_short_name", repr(acc)[:200]))
        if len(problems) > 5:
            break
    for text in ("DE89000000000532013000", "GB29XXXX60161331926819", "NO9300001117947"):
        x = IBAN(text, allow_invalid=True)
        if x.bic is not None or x.bank is not None or x.bank_name is not None or x.bank_short_name is not None:
            problems.append((f"IBAN({text}) of an unlisted bank: bic/bank/names are not None", None))
    return problems, dict(keys=n_keys, bics=len(want_bic), unlisted_pairs=n_unlisted, ibans=n_iban, entries=len(banks))


ROOT = os.path.dirname(os.path.dirname(os.path.abspath(__file__)))
LEAN_THEOREMS = ["C12.group_loop", "C12.group_loop_present", "C12.group_loop_sound", "C12.group_loop_sublist"]


def main(seed, tier):
    from props import common
    t0 = time.time()
    ks = [0, 1, 2, 3]
    shapes = ["", "8", "11", "8,8", "8,11", "11,8", "11,11", "11,11,11", "11,8,11", "8,11,8", "11,11,8"]
    if tier == "thorough":
        ks.append(4)
        shapes += ["11,11,11,11", "11,8,11,8"]
    specs = [("props.c12", "SelectionProofTask", ()), ("props.c12", "CandidatesProofTask", ())]
    specs += [("props.c12", "BuildIndexTask", a) for a in (("country_code+bank_code",), ("bic",), ("country_code",),
                                                           ("country_code+bank_code", "primary"))]
    specs += [("props.c12", "CandidatesTask", (k,)) for k in ks] + [("props.c12", "SelectionTask", (s,)) for s in shapes]
    results = common.run_tasks(specs, seed, tier)
    from props import leanrun
    lok, lobls, ltext, lsecs = leanrun.run(os.path.join(ROOT, "lemmas", "C12.lean"), LEAN_THEOREMS)
    results.append(dict(task="lean lemmas C12 (grouping meta-theorem)", obligations=lobls, functions={}, files={}, paths=0,
                        error=None if lok is not None else f"checker fault: {ltext}", spec=None))
    problems, stats = registry_evaluation()
    results.append(dict(task="bundled registry (exhaustive evaluation)", functions={}, files={}, paths=0, error=None, spec=None,
                        obligations=[dict(
                            name=f"all {stats['keys']} (country, bank code) keys, {stats['bics']} BICs, {stats['unlisted_pairs']} "
                                 f"unlisted pairs and {stats['ibans']} IBANs agree with the sidecar lookup spec",
                            status="discharged" if not problems else "refuted", backend="cpython (exhaustive on bundled data)",
                            secs=0.0, witness={"first": repr(problems[0])[:600]} if problems else None,
                            detail="" if not problems else f"replayed natively: {problems[0]!r}"[:600], kind="vc")]))
    return common.finish(
        "C12", results, t0, seed, tier, level="proof",
        assumptions=["selection rule of from_bank_code: PROVED for candidate lists of any length (abstract lists: filters "
                     "evaluated for one generic element, sorted() assumed to return a permutation so that its last "
                     "element is a member); precondition: every candidate is a valid BIC (8 or 11 characters)",
                     "candidates_from_bank_code: PROVED for registry groups of any size to be [BIC(e.bic) for e in "
                     "sorted(group, key=primary, reverse=True) if e.bic] with the BIC constructor never raising on "
                     "well-formed entries (sort key, filter and map evaluated for one generic entry); that this list is "
                     "'primary entries first, listed order kept' rests on the ASSUMED contract of sorted (stable); the "
                     "same statement is cross-checked on symbolic groups of <= 3 / 4 entries with a modelled stable sort",
                     "build_index(accumulate=True) - the form of all three call sites - PROVED for bank lists of any length "
                     "with symbolic field texts: loop body executed for one generic entry; each entry is appended (itself "
                     "or an equal copy) under the key of its own fields exactly when every key component is non-empty "
                     "(and the predicate holds); generalisation to the whole list by the grouping meta-theorem (a loop of "
                     "guarded appends to an empty defaultdict(list) is the order-preserving grouping; pyvc/agroup.py), "
                     "which is now MACHINE-CHECKED in Lean (lemmas/C12.lean: group_loop, group_loop_present, "
                     "group_loop_sound, group_loop_sublist - induction on the list with a generalised accumulator); what "
                     "stays assumed is that the Lean loop schema (foldl of `if phi e then data[k e] ++= [e]`, absent slot "
                     "= []) is what a Python for-loop over a list with that body does; cross-checked natively on random "
                     "lists of <= 6 entries; the accumulate=False form "
                     "has no call site and is not covered",
                     "invertibility and the IBAN-side accessors are evaluated exhaustively on the bundled "
                     "registry (22,753 keys), not proved for arbitrary registries",
                     "sorted() is stable and returns a permutation (assumed; modelled as a stable insertion sort)",
                     "registry entries satisfy well_formed (C17): a non-empty BIC is a valid BIC",
                     "'any registry contents' beyond the bundled data is covered only up to the size bound"],
        extra_cov=dict(evaluations=stats["keys"] + stats["bics"] + stats["unlisted_pairs"] + stats["ibans"],
                       distinct_nontrivial=stats["keys"], exhaustive=True,
                       rule="every (country, bank code) key of the bundled registry, every BIC, a fixed set of unlisted "
                            "pairs, up to 60 IBANs per country built around listed keys; distinct = distinct keys; plus "
                            "pyvc runs over symbolic groups of bounded size",
                       registry=stats),
        not_proved_note="selection rule proved unboundedly; candidate order bounded in the group size; registry-level "
                        "statements exhaustive on the bundled data")
