"""C05 - validation is total and its errors name a defect that is really present."""
import time


def from_bban_sweep(seed, per_country):
    """BOUNDED: IBAN.from_bban(country text, BBAN text[, validate_bban]) - the alternate validating constructor - lets
    only library exceptions escape, on sampled texts (valid, perturbed, raw spellings with blanks / lower case /
    non-ASCII characters)"""
    import random
    from props.bictasks import raw_variant
    from props.ibantasks import IbanTask, table
    from pyvc import task as T
    from schwifty import IBAN
    rnd = random.Random(seed + 17)
    n = 0
    for cc in sorted(table()):
        t = IbanTask(cc)
        for _ in range(per_country):
            p = t.sample(rnd)["p"]
            b = p[4:]
            texts = [b, raw_variant(rnd, b), b.lower(), b[:-1] + "-", b + " ", "\u0663" + b[1:]]
            for x in texts:
                for c2 in (cc, cc.lower(), " " + cc):
                    for flag in (False, True):
                        n += 1
                        o = T.native_obs(lambda: IBAN.from_bban(c2, x, validate_bban=flag))
                        if isinstance(o, T.Escape):
                            return n, dict(country=c2, bban=x, validate_bban=flag, outcome=repr(o))
    return n, None


def lookup_constructor_sweep():
    """BOUNDED (exhaustive on the bundled registry): the lookup constructors BIC.from_bank_code /
    candidates_from_bank_code let only library exceptions escape - every registry key, plus unlisted pairs"""
    from pyvc import task as T
    from schwifty import BIC, registry
    n = 0
    keys = list(registry.get("bank_code")) + [("DE", "00000000"), ("XX", "1"), ("", ""), ("FR", "99999"), ("DK", "")]
    for cc, code in keys:
        for fn in (BIC.from_bank_code, BIC.candidates_from_bank_code):
            n += 1
            o = T.native_obs(lambda: fn(cc, code))
            if isinstance(o, T.Escape):
                return n, dict(constructor=fn.__name__, country=cc, bank_code=code, outcome=repr(o))
    return n, None


class LookupReplay:
    def native_agree(self, wit):
        from pyvc import task as T
        from schwifty import BIC
        o = T.native_obs(lambda: getattr(BIC, wit["constructor"])(wit["country"], wit["bank_code"]))
        return not isinstance(o, T.Escape), repr(o), "a return or a library exception"


class FromBbanReplay:
    def native_agree(self, wit):
        from pyvc import task as T
        from schwifty import IBAN
        o = T.native_obs(lambda: IBAN.from_bban(wit["country"], wit["bban"], validate_bban=wit["validate_bban"]))
        return not isinstance(o, T.Escape), repr(o), "a return or a library exception"


def main(seed, tier):
    from props import c01, common, ibantasks
    t0 = time.time()
    ccs = sorted(ibantasks.table()) + ["None"]
    specs = [("props.ibantasks", "IbanTask", (cc, "construct")) for cc in ccs]
    specs += [("props.ibantasks", "IbanTask", (cc, "is_valid")) for cc in ccs]
    if tier == "thorough":
        specs += [("props.ibantasks", "IbanTask", (cc, "validate")) for cc in ccs]
    specs += [("props.ibantasks", "IbanTask", (cc, "from-object")) for cc in ("DE", "GB", "NO", "None")]
    specs += [("props.bictasks", "BicTask", (m,)) for m in ("construct", "validate", "is_valid", "from-object")]
    from props import c02
    specs += c02.from_bban_flag_specs(["DE", "GB", "NO", "FR", "IT", "ES", "BE", "PL", "MT", "LC", "AO", "BR"])
    results = common.run_tasks(specs, seed, tier)
    n_fb, wit = from_bban_sweep(seed, 3 if tier == "thorough" else 1)
    results.append(dict(task="from_bban sweep", functions={}, files={}, paths=0, error=None, spec=["props.c05", "FromBbanReplay", []],
                        obligations=[dict(name=f"IBAN.from_bban lets only library exceptions escape ({n_fb} sampled calls, bounded)",
                                          kind="bounded", status="discharged" if wit is None else "refuted", backend="cpython",
                                          secs=0.0, witness=wit,
                                          detail="" if wit is None else f"replayed natively: {wit}")]))
    n_lk, wit2 = lookup_constructor_sweep()
    results.append(dict(task="lookup constructors", functions={}, files={}, paths=0, error=None, spec=["props.c05", "LookupReplay", []],
                        obligations=[dict(name=f"BIC.from_bank_code / candidates_from_bank_code let only library exceptions escape "
                                               f"({n_lk} calls: every registry key and unlisted pairs, bounded)",
                                          kind="bounded", status="discharged" if wit2 is None else "refuted", backend="cpython",
                                          secs=0.0, witness=wit2, detail="" if wit2 is None else f"replayed natively: {wit2}")]))
    return common.finish(
        "C05", results, t0, seed, tier, assumptions=c01.ASSUMPTIONS + [
            "A5 pycountry membership as probed by C04",
            "int(str) is modelled for ASCII digits; any other character takes the ValueError path, which must be "
            "proved dead (CPython also accepts other Unicode digits there: a path the model treats as raising is "
            "at worst a spurious obligation, never a missed escape, because every escape is replayed natively)"],
        extra_cov=dict(modes=["construct", "is_valid"] + (["validate"] if tier == "thorough" else []) +
                       ["BIC construct/validate/is_valid"]),
        not_proved_note="every path of IBAN(p, validate_bban=flag), .is_valid (and .validate in the thorough tier) and "
                        "of the three BIC entry points: outcome is a return or a library exception (an escape is a "
                        "refuted obligation), is_valid has no raise path, acceptance iff spec, each raise class iff its "
                        "defect predicate holds")
