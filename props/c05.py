"""C05 - validation is total and its errors name a defect that is really present."""
import time


def main(seed, tier):
    from props import c01, common, ibantasks
    t0 = time.time()
    ccs = sorted(ibantasks.table()) + ["None"]
    specs = [("props.ibantasks", "IbanTask", (cc, "construct")) for cc in ccs]
    specs += [("props.ibantasks", "IbanTask", (cc, "is_valid")) for cc in ccs]
    if tier == "thorough":
        specs += [("props.ibantasks", "IbanTask", (cc, "validate")) for cc in ccs]
    specs += [("props.ibantasks", "IbanTask", (cc, "from-object")) for cc in ("DE", "GB", "NO", "None")]
    specs += [("props.bictasks", "BicTask", (m,)) for m in ("construct", "validate", "is_valid", "from-object")]
    results = common.run_tasks(specs, seed, tier)
    return common.finish(
        "C05", results, t0, seed, tier, assumptions=c01.ASSUMPTIONS + [
            "A5 pycountry membership as probed by C04",
            "int(str) is modelled for ASCII digits; any other character takes the ValueError path, which must be "
            "proved dead (CPython also accepts other Unicode digits there: a path the model treats as raising is "
            "at worst a spurious obligation, never a missed escape, because every escape is replayed natively)"],
        extra_cov=dict(modes=["construct", "is_valid"] + (["validate"] if tier == "thorough" else []) +
                       ["BIC construct/validate/is_valid"]),
        not_proved_note="every path of IBAN(p, validate_bban=flag), .is_valid (and .validate in the thorough tier) and "
                        "of the three BIC entry points: outcome is a return or a library exception (an escape is a "
                        "refuted obligation), is_valid has no raise path, acceptance iff spec, each raise class iff its "
                        "defect predicate holds")
