"""Call trees of the lookup API run through the interpreter with concrete arguments (frame obligations of C14/C15;
the functional contract of the lookups is C12's)."""
from __future__ import annotations

import z3

from contracts import common as CC
from pyvc import task as T
from pyvc.values import SObj, payload


class LookupTask(T.Task):
    crosscheck_samples = 30

    def __init__(self, kind, cc, code):
        self.kind, self.cc, self.codearg = kind, cc, code
        self.name = f"{kind}({cc!r}, {code!r})"
        self.contracts = {"schwifty.common.clean": CC.clean_contract}

    def setup(self, I):
        return {}

    def run_native(self):
        from schwifty import BIC, IBAN
        if self.kind == "candidates":
            return [str(b) for b in BIC.candidates_from_bank_code(self.cc, self.codearg)]
        if self.kind == "from_bank_code":
            return str(BIC.from_bank_code(self.cc, self.codearg))
        if self.kind == "bic_reverse":
            b = BIC(self.codearg, allow_invalid=True)
            return [b.exists, list(b.domestic_bank_codes), list(b.bank_names), list(b.bank_short_names)]
        x = IBAN(self.codearg, allow_invalid=True)
        return [None if x.bic is None else str(x.bic), x.bank and x.bank.get("bic"), x.bank_name, x.bank_short_name]

    def code(self, I, inp):
        from schwifty import BIC, IBAN
        if self.kind == "candidates":
            r = I.call(I.getattr(BIC, "candidates_from_bank_code"), [self.cc, self.codearg], {})
            return [payload(x) for x in r]
        if self.kind == "from_bank_code":
            return payload(I.call(I.getattr(BIC, "from_bank_code"), [self.cc, self.codearg], {}))
        if self.kind == "bic_reverse":
            b = I.call(BIC, [self.codearg], {"allow_invalid": True})
            return [I.getattr(b, "exists"), list(I.getattr(b, "domestic_bank_codes")), list(I.getattr(b, "bank_names")),
                    list(I.getattr(b, "bank_short_names"))]
        x = I.call(IBAN, [self.codearg], {"allow_invalid": True})
        bic = I.getattr(x, "bic")
        bank = I.getattr(x, "bank")
        return [None if bic is None else payload(bic), bank and bank.get("bic"), I.getattr(x, "bank_name"),
                I.getattr(x, "bank_short_name")]

    def custom_obligations(self, I, inp, code_paths, cobs):
        want = T.native_obs(self.run_native)
        out = []
        for i, (path, o) in enumerate(cobs):
            if isinstance(o, T.Escape):
                continue
            out.append((f"path {i}: the interpreted call returns what the native call returns", path["pc"],
                        T.as_formula(T.obs_eq(I, o, want))))
        return out

    def native_code(self, inp):
        return T.native_obs(self.run_native)

    def native_agree(self, inp):
        a = T.native_obs(self.run_native)
        b = T.native_obs(self.run_native)
        return a == b, a, b

    def sample(self, rnd):
        return {}


def specs():
    from schwifty import registry
    idx = registry.get("bank_code")
    multi = [k for k, v in idx.items() if len(v) > 1 and not v[0].get("primary") and any(e.get("primary") for e in v)][:3]
    out = []
    for cc, code in multi + [("DE", "43060967"), ("FR", "30004"), ("DE", "01010101")]:
        out.append(("props.lookuptasks", "LookupTask", ("candidates", cc, code)))
        out.append(("props.lookuptasks", "LookupTask", ("from_bank_code", cc, code)))
    for iban in ("DE89370400440532013000", "PL61109010140000071219812874", "DE89120700000532013000", "GB29XXXX60161331926819"):
        out.append(("props.lookuptasks", "LookupTask", ("iban_accessors", "", iban)))
    # the reverse direction: BIC -> registry entries (exists, domestic bank codes, names)
    for bic in ("GENODEM1GLS", "DEUTDEFF", "AAAADEFFXXX"):
        out.append(("props.lookuptasks", "LookupTask", ("bic_reverse", "", bic)))
    return out
