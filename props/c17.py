"""C17 - the bundled country and bank data are internally consistent.

The data are values, not inputs: the invariant well_formed is EVALUATED on every entry the tree bundles (finite,
exhaustive, re-done from the working tree on every run); the per-country regex is translation-validated against
the sidecar's own reading of the structure string (z3); the consequence "every listed bank can occur in a valid
IBAN and is found again" is run natively for every bank entry."""
from __future__ import annotations

import time

import z3

from contracts import common as CC
from pyvc import rx, solve
from pyvc.values import Unsupported


def obl(name, ok, detail="", witness=None, backend="exhaustive evaluation (cpython)", secs=0.0, kind="vc"):
    return dict(name=name, status="discharged" if ok else "refuted", backend=backend, secs=secs,
                witness=witness if not ok else None,
                detail=("replayed natively: " + detail) if not ok else "", kind=kind)


def country_invariant(cc, s):
    """list of violated clauses of well_formed for one country entry"""
    from schwifty.checksum import algorithms
    from schwifty.domain import Component
    bad = []
    try:
        cl = CC.classes(s["bban_spec"])
    except (ValueError, Unsupported) as ex:
        return [f"the structure string does not describe a fixed-width BBAN: {ex}"]
    L = s.get("bban_length")
    if len(cl) != L:
        bad.append(f"structure {s['bban_spec']!r} describes {len(cl)} characters, bban_length is {L}")
    if s.get("iban_length") != (L or 0) + 4:
        bad.append(f"iban_length {s.get('iban_length')} != bban_length + 4")
    if (s.get("iban_length") or 99) > 34:
        bad.append("iban_length > 34")
    pos = s.get("positions", {})
    names = {c.value for c in Component}
    ranges = []
    for k, v in pos.items():
        if k not in names:
            bad.append(f"unknown component {k!r}")
            continue
        a, e = v
        if (a, e) == (0, 0):
            continue
        if not (0 <= a < e <= (L or 0)):
            bad.append(f"position of {k} {v} outside the BBAN")
        ranges.append((a, e, k))
    ranges.sort()
    for (a1, e1, k1), (a2, e2, k2) in zip(ranges, ranges[1:]):
        if a2 < e1:
            bad.append(f"{k1} {a1, e1} overlaps {k2} {a2, e2}")
    algo = algorithms.get(f"{cc}:default")
    if algo is not None:
        for c in algo.accepts:
            # a field the country does not define reads as "" (Base._get_slice(0, 0)); the algorithms that list the
            # generic triple bank/branch/account rely on that for a missing branch field - anything else must exist
            if c.value not in pos and c.value not in ("branch_code",):
                bad.append(f"national algorithm reads undefined field {c.value}")
        # the algorithm must give a verdict on a structure-conforming BBAN of the country (no crash on fields the
        # country does not define), and a computed check value needs a field to live in
        try:
            cl_ = CC.classes(s["bban_spec"])
            sample = "".join("A" if k == "a" else "1" for k in cl_)
            from schwifty import BBAN
            from schwifty.exceptions import SchwiftyException
            try:
                BBAN(cc, sample).validate_national_checksum()
            except SchwiftyException:
                pass
        except Exception as ex:  # noqa: BLE001
            bad.append(f"national algorithm crashes on a structure-conforming BBAN: {type(ex).__name__}: {ex}")
    for c in s.get("bic_lookup_components", []):
        if c not in pos:
            bad.append(f"bic_lookup_components names undefined field {c}")
    return bad


def regex_vs_classes(cc, s):
    """translation validation of the compiled per-country pattern: on a vector of bban_length characters with the
    Base invariant (no whitespace, no a-z) the live regex matches iff every character is in its class; on any
    other length it does not match"""
    cl = CC.classes(s["bban_spec"])
    pat = s["regex"]
    out = []
    t0 = time.time()
    for n in (len(cl) - 1, len(cl), len(cl) + 1):
        if n < 0:
            continue
        chars = [z3.Int(f"c{i}") for i in range(n)]
        base = [z3.And(CC.Fix(c), CC.fix_facts(c)) for c in chars]
        m = rx.match_formula(pat, chars, "match")
        want = z3.And(*[CC.CLS[k](c) for k, c in zip(cl, chars)]) if n == len(cl) else z3.BoolVal(False)
        st, model, backend, secs = solve.check(base + [m != want])
        wit = None
        if st == "sat" and model is not None:
            wit = "".join(chr(solve.model_int(model, c)) for c in chars)
            native = pat.match(wit) is not None
            spec_ok = n == len(cl) and all({"n": ch in "0123456789", "a": "A" <= ch <= "Z",
                                            "c": ch in "0123456789ABCDEFGHIJKLMNOPQRSTUVWXYZ"}[k] for k, ch in zip(cl, wit))
            det = ("CONFIRMED natively: " if native != spec_ok else "NOT-CONFIRMED ") + \
                f"regex {pat.pattern!r} match={native}, classes say {spec_ok}"
        else:
            det = ""
        out.append(dict(name=f"{cc}: live regex <=> structure classes on length {n}", kind="vc", backend=backend,
                        secs=round(secs, 3), status={"unsat": "discharged", "sat": "refuted"}.get(st, "undecided"),
                        witness={"bban": wit} if wit is not None else None, detail=det))
    return out


def bank_invariant(table, e):
    from schwifty import BIC
    from schwifty.exceptions import SchwiftyException
    bad = []
    cc = e.get("country_code")
    if cc not in table:
        return [f"country {cc!r} not in the table"]
    bic = e.get("bic", "")
    if bic:
        try:
            BIC(bic)
        except SchwiftyException as ex:
            bad.append(f"bic {bic!r} invalid: {type(ex).__name__}")
        from contracts import bic as B
        if not B.accept_bic(bic, False):
            bad.append(f"bic {bic!r} is not accepted by the ISO 9362 spec")
    code = e.get("bank_code", "")
    if code:
        s = table[cc]
        pos = s.get("positions", {})
        cl = CC.classes(s["bban_spec"])
        fields = s.get("bic_lookup_components", ["bank_code"])
        want = []
        for f in fields:
            a, b = pos.get(f, [0, 0])
            want += cl[a:b]
        if len(code) != len(want):
            bad.append(f"bank_code {code!r} has length {len(code)}, the lookup field(s) {fields} have {len(want)}")
        elif not all({"n": ch in "0123456789", "a": "A" <= ch <= "Z", "c": ch in "0123456789ABCDEFGHIJKLMNOPQRSTUVWXYZ"}[k]
                     for k, ch in zip(want, code)):
            bad.append(f"bank_code {code!r} does not fit the classes {''.join(want)}")
        elif "national_checksum_digits" in fields:
            from contracts import national as N
            nat = N.EXACT.get(cc)
            if nat is not None:
                b = ["0"] * s["bban_length"]
                off = 0
                for f in fields:
                    a, e = pos.get(f, [0, 0])
                    b[a:e] = code[off:off + (e - a)]
                    off += e - a
                if not nat("".join(b)):
                    bad.append(f"bank_code {code!r} contains national check digits that violate the national rule")
    return bad


def found_again(table, e):
    """the consequence, run natively: an IBAN built around the entry is valid and its .bank is an entry with the
    same bank code (None if no failure)"""
    from schwifty import IBAN
    cc, code = e["country_code"], e.get("bank_code", "")
    if not code:
        return None
    s = table[cc]
    pos = s.get("positions", {})
    fields = s.get("bic_lookup_components", ["bank_code"])
    bban = ["0"] * s["bban_length"]
    cl = CC.classes(s["bban_spec"])
    for i, k in enumerate(cl):
        bban[i] = "A" if k == "a" else "0"
    off = 0
    for f in fields:
        a, b = pos.get(f, [0, 0])
        bban[a:b] = code[off:off + (b - a)]
        off += b - a
    try:
        x = IBAN.from_bban(cc, "".join(bban))
        bank = x.bank
    except Exception as ex:  # noqa: BLE001
        return f"IBAN around {code!r} ({cc}): {type(ex).__name__}: {ex}"
    if not bank or bank.get("bank_code") != code:
        return f"IBAN {x!s} built around {code!r} does not find the bank again (.bank = {bank and bank.get('bank_code')!r})"
    return None


def main(seed, tier):
    from props import common
    from schwifty import registry
    t0 = time.time()
    table = registry.get("iban")
    banks = registry.get("bank")
    obls = []
    for cc in sorted(table):
        bad = country_invariant(cc, table[cc])
        obls.append(obl(f"{cc}: well_formed(country entry)", not bad, "; ".join(bad), {"country": cc, "violations": bad}))
        try:
            obls += regex_vs_classes(cc, table[cc])
        except (ValueError, NotImplementedError, Unsupported) as ex:
            obls.append(dict(name=f"{cc}: live regex <=> structure classes", kind="vc", backend="z3", secs=0,
                             status="undecided", witness=None, detail=str(ex)))
    per_country = {}
    for e in banks:
        per_country.setdefault(e.get("country_code"), []).append(e)
    n_entries = 0
    for cc in sorted(per_country, key=str):
        bad = []
        again = []
        for e in per_country[cc]:
            n_entries += 1
            b = bank_invariant(table, e)
            if b:
                bad.append((e.get("bank_code"), e.get("bic"), b))
            elif cc in table:
                r = found_again(table, e)
                if r:
                    again.append(r)
        obls.append(obl(f"bank registry [{cc}]: {len(per_country[cc])} entries well_formed", not bad,
                        repr(bad[:3]), {"country": cc, "first_bad": repr(bad[:3])}))
        obls.append(obl(f"bank registry [{cc}]: every listed bank occurs in a valid IBAN and is found again", not again,
                        repr(again[:3]), {"country": cc, "first_bad": again[:3]}))
    results = [dict(task="bundled data", obligations=obls, functions={}, files={}, paths=0, error=None,
                    spec=["props.c17", "DataReplay", []])]
    return common.finish(
        "C17", results, t0, seed, tier,
        assumptions=["the data verified are the ones the working tree bundles at this run (registry.get at import); "
                     "future registry updates are re-checked when they land, not before; scripts/ need the network and "
                     "are out of reach",
                     "A2 regex compiler as in C01 (self-tested there)",
                     "'fits the bank-identifying field' = the fields named by bic_lookup_components (default bank_code)"],
        extra_cov=dict(countries=len(table), bank_entries=n_entries, exhaustive=True,
                       bounded_parts=[]),
        not_proved_note="well_formed evaluated on every country and bank entry (exhaustive over the bundled "
                        "configuration); per country the live regex is proved (z3) equivalent to the structure "
                        "classes on lengths L-1, L, L+1; the found-again consequence is run natively for every entry")


class DataReplay:
    def native_agree(self, wit):
        from schwifty import registry
        table = registry.get("iban")
        cc = wit.get("country")
        if "bban" in wit:
            return False, wit, "see obligation"
        if cc in table and "violations" in wit:
            bad = country_invariant(cc, table[cc])
            return not bad, bad, []
        return False, wit, "re-run ./check C17"
