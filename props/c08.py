"""C08 - generated IBANs carry exactly the supplied components, padded, never altered;
C09(i) - computed national check digits validate (shares the tasks)."""
from __future__ import annotations

import time

import z3

from contracts import common as CC
from contracts import generate as G
from contracts import iban as S
from contracts import national as N
from pyvc import task as T
from pyvc.values import Raised, SObj, SStr, lift_str, payload

LIBRARY = ("SchwiftyException", "InvalidLength", "InvalidStructure", "InvalidCountryCode", "InvalidBankCode",
           "InvalidBranchCode", "InvalidAccountCode", "InvalidChecksumDigits", "InvalidBBANChecksum",
           "GenerateRandomOverflowError")


def field_widths(spec_entry):
    pos = spec_entry.get("positions", {})

    def w(k):
        a, e = pos.get(k, [0, 0])
        return e - a
    return w("bank_code"), w("branch_code"), w("account_code")


class GenerateTask(T.Task):
    """IBAN.generate(K, bank_code, account_code, branch_code) for cleaned components of ANY length and content"""
    crosscheck_samples = 150

    def __init__(self, cc):
        from props.c06 import get_index_contract, luhn_contract
        from props.ibantasks import table
        self.cc = cc
        self.name = f"IBAN.generate[{cc}]"
        self.entry = table()[cc]
        self.L = self.entry["bban_length"]
        self.cls = tuple(CC.classes(self.entry["bban_spec"]))
        self.widths = field_widths(self.entry)
        self.contracts = {"schwifty.common.clean": CC.clean_contract,
                          "schwifty.checksum.numerify": CC.make_numerify_contract(("iban", self.L)),
                          "contracts.common.Num": CC.make_num_spec_contract(("iban", self.L)),
                          "schwifty.checksum.italy.get_index": get_index_contract,
                          "schwifty.checksum.luhn": luhn_contract}

    def setup(self, I):
        I.name_vector_chars = True
        return {k: CC.fresh_clean_text(I, k) for k in ("bank_code", "branch_code", "account_code")}

    def code(self, I, inp):
        from schwifty import IBAN
        lb, lr, la = self.widths
        exp = I.call(G.placement, [inp["bank_code"], inp["branch_code"], inp["account_code"], lb, lr, la], {})
        try:
            r = I.call(I.getattr(IBAN, "generate"), [self.cc],
                       dict(bank_code=inp["bank_code"], account_code=inp["account_code"], branch_code=inp["branch_code"]))
            out = ("IBAN", payload(r)) if isinstance(r, SObj) else ("VALUE", r)
        except Raised as e:
            out = T.std_observe(dict(kind="raise", value=e.exc))
        return (exp, out)

    def custom_obligations(self, I, inp, code_paths, cobs):
        pos = self.entry.get("positions", {})
        rng = {k: tuple(pos.get(k, [0, 0])) for k in ("bank_code", "branch_code", "account_code",
                                                       "national_checksum_digits")}
        covered = set()
        for k, (a, e) in rng.items():
            covered |= set(range(a, e))
        out = []
        for i, (path, o) in enumerate(cobs):
            pc = path["pc"]
            if path["kind"] != "return":
                continue
            exp, res = o
            kind = exp[0]
            if isinstance(res, T.Escape):
                out.append((f"path {i}: only library errors escape (got {type(res.exc).__name__}: {res.exc})", pc,
                            z3.BoolVal(False)))
                continue
            is_lib = isinstance(res, T.ExcTag) and res.name in LIBRARY
            if kind == "TOO_LONG":
                ok = isinstance(res, T.ExcTag) and res.name in exp[1]
                out.append((f"path {i}: a component longer than its field raises its own error class "
                            f"(expected one of {exp[1]}, got {res!r})", pc, z3.BoolVal(ok)))
            elif kind == "CONFLICT":
                out.append((f"path {i}: combined-width bank code plus explicit branch code: nothing may be dropped "
                            f"silently (got {_short(res)})", pc, z3.BoolVal(is_lib)))
            elif is_lib:
                out.append((f"path {i}: raises a library error ({res.name})", pc, z3.BoolVal(True)))
            elif isinstance(res, tuple) and res[0] == "IBAN":
                s = lift_str(res[1]).chars
                if len(s) != self.L + 4:
                    out.append((f"path {i}: result has the country's IBAN length", pc, z3.BoolVal(False)))
                    continue
                bban = s[4:]
                # the characters of the result are compound terms (padding ite over the inputs): name them, with
                # the class of their position as domain, so that lookup tables over them can be canonicalised
                I.term_domains = list(getattr(I, "term_domains", [])) + [
                    (c, CC.DOMAIN[k]) for c, k in zip(bban, self.cls) if not z3.is_int_value(c)]
                for k, val in zip(("bank_code", "branch_code", "account_code"), exp[1:]):
                    a, e = rng[k]
                    want = lift_str(val).chars if not isinstance(val, str) else [z3.IntVal(ord(c)) for c in val]
                    if len(want) != e - a:
                        out.append((f"path {i}: {k} field width", pc, z3.BoolVal(False)))
                        continue
                    out.append((f"path {i}: the {k} field holds the zero-padded component, unaltered", pc,
                                z3.And(*[x == y for x, y in zip(bban[a:e], want)]) if want else z3.BoolVal(True)))
                rest = [bban[j] == 48 for j in range(self.L) if j not in covered]
                out.append((f"path {i}: positions of no supplied component are '0'", pc,
                            z3.And(*rest) if rest else z3.BoolVal(True)))
                acc, _ = T.spec_formula(I, S.accept_k, [SStr(s), self.cc, self.cls], ctx=pc)
                out.append((f"path {i}: the result is a valid IBAN of {self.cc}", pc, acc))
                nat = N.EXACT.get(self.cc) or (N.BAND[self.cc][0] if self.cc in N.BAND else None)
                if nat is not None and rng["national_checksum_digits"] != (0, 0):
                    # countries that keep separately computed national digits in a dedicated field (C09's 19)
                    f, _ = T.spec_formula(I, nat, [SStr(bban)], ctx=pc)
                    if self.cc in N.BAND:
                        band, _ = T.spec_formula(I, N.no_band, [SStr(bban)], ctx=pc)
                        f = z3.Or(f, band)
                    out.append((f"path {i}: the computed national check digits satisfy the published rule (C09)", pc, f))
            else:
                out.append((f"path {i}: outcome {_short(res)} not admitted", pc, z3.BoolVal(False)))
        return out

    # ------------------------------------------------------------ native
    def native_agree(self, inp):
        from schwifty import IBAN
        from schwifty.exceptions import SchwiftyException
        lb, lr, la = self.widths
        exp = G.placement(inp["bank_code"], inp["branch_code"], inp["account_code"], lb, lr, la)
        try:
            r = IBAN.generate(self.cc, bank_code=inp["bank_code"], account_code=inp["account_code"],
                              branch_code=inp["branch_code"])
            res = str(r)
        except SchwiftyException as ex:
            res = T.ExcTag(type(ex).__name__)
        except Exception as ex:  # noqa: BLE001
            return False, f"ESCAPE {type(ex).__name__}: {ex}", exp
        if exp[0] == "TOO_LONG":
            return isinstance(res, T.ExcTag) and res.name in exp[1], res, exp
        if exp[0] == "CONFLICT":
            return isinstance(res, T.ExcTag), res, exp
        if isinstance(res, T.ExcTag):
            return True, res, exp
        pos = self.entry.get("positions", {})
        bban = res[4:]
        ok = len(res) == self.L + 4 and bool(S.accept_k(res, self.cc, self.cls))
        covered = set()
        for k, val in zip(("bank_code", "branch_code", "account_code"), exp[1:]):
            a, e = pos.get(k, [0, 0])
            covered |= set(range(a, e))
            ok = ok and bban[a:e] == val
        a, e = pos.get("national_checksum_digits", [0, 0])
        covered |= set(range(a, e))
        ok = ok and all(bban[j] == "0" for j in range(self.L) if j not in covered)
        nat = N.EXACT.get(self.cc)
        if nat is not None and tuple(pos.get("national_checksum_digits", [0, 0])) != (0, 0):
            ok = ok and bool(nat(bban))
        return ok, res, exp

    def sample(self, rnd):
        lb, lr, la = self.widths
        pos = self.entry.get("positions", {})

        def comp(k, w):
            a, e = pos.get(k, [0, 0])
            cl = self.cls[a:e]
            r = rnd.random()
            n = w if r < 0.4 else (rnd.randrange(0, w + 1) if r < 0.8 else w + rnd.randrange(1, 4))
            if k == "bank_code" and lr and rnd.random() < 0.15:
                n = lb + lr
            alpha = {"n": "0123456789", "a": "ABCDEFGHIJKLMNOPQRSTUVWXYZ", "c": "0123456789ABCDEFGHIJKLMNOPQRSTUVWXYZ"}
            s = "".join(rnd.choice(alpha[cl[min(j, len(cl) - 1)]] if cl else "0123456789") for j in range(n))
            if s and rnd.random() < 0.12:
                j = rnd.randrange(len(s))
                s = s[:j] + rnd.choice("-+_./É٣X") + s[j + 1:]
            return s
        return {"bank_code": comp("bank_code", lb), "account_code": comp("account_code", la),
                "branch_code": comp("branch_code", lr) if rnd.random() < 0.5 else ""}


def _short(x):
    s = repr(x)
    return s if len(s) < 60 else s[:57] + "..."


class UnsupportedCountryTask(T.Task):
    """unknown country, or a country without published positions: a library error"""

    def __init__(self, cc):
        self.cc = cc
        self.name = f"IBAN.generate[{cc}] (no positions / unknown)"
        self.contracts = {"schwifty.common.clean": CC.clean_contract}

    def setup(self, I):
        return {k: CC.fresh_clean_text(I, k) for k in ("bank_code", "branch_code", "account_code")}

    def code(self, I, inp):
        from schwifty import IBAN
        return I.call(I.getattr(IBAN, "generate"), [self.cc],
                      dict(bank_code=inp["bank_code"], account_code=inp["account_code"], branch_code=inp["branch_code"]))

    def custom_obligations(self, I, inp, code_paths, cobs):
        out = []
        for i, (path, o) in enumerate(cobs):
            if isinstance(o, T.Escape):
                continue
            out.append((f"path {i}: raises a library error (got {_short(o)})", path["pc"],
                        z3.BoolVal(isinstance(o, T.ExcTag) and o.name in LIBRARY)))
        return out

    def native_agree(self, inp):
        from schwifty import IBAN
        o = T.native_obs(lambda: IBAN.generate(self.cc, inp["bank_code"], inp["account_code"], inp["branch_code"]))
        return isinstance(o, T.ExcTag), o, "library error"

    def sample(self, rnd):
        return {"bank_code": "".join(rnd.choice("0123456789AB") for _ in range(rnd.randrange(0, 10))),
                "account_code": "".join(rnd.choice("0123456789") for _ in range(rnd.randrange(0, 14))), "branch_code": ""}


def main(seed, tier, prop="C08"):
    from props import common, ibantasks
    t0 = time.time()
    tab = ibantasks.table()
    with_pos = sorted(cc for cc, s in tab.items() if "positions" in s)
    without = sorted(cc for cc, s in tab.items() if "positions" not in s)
    specs = [("props.c08", "GenerateTask", (cc,)) for cc in with_pos]
    # unknown and malformed country codes (lower case, padded, truncated): a library error, nothing else
    specs += [("props.c08", "UnsupportedCountryTask", (cc,)) for cc in without + ["XX", "ZZ", "de", "De", " DE", "DE ", "", "D",
                                                                                  "DEU", "D1", "dé"]]
    specs += [("props.c06", "LuhnTask", (13,)), ("props.c06", "GetIndexTask", ())]
    results = common.run_tasks(specs, seed, tier)
    from props.c01 import ASSUMPTIONS
    return common.finish(
        prop, results, t0, seed, tier, assumptions=ASSUMPTIONS + [
            "components are the cleaned texts x' = Clean(x) of any length and content (Base invariant); Clean is C10",
            "str.zfill as modelled (left-pad with '0', a leading sign stays in front)",
            "contracts of luhn / get_index / numerify as in C06"],
        extra_cov=dict(countries_with_positions=len(with_pos), countries_without=without),
        not_proved_note="per country: every path of the real IBAN.generate over three symbolic-length components is "
                        "compared with the placement spec: fits => each field = zero-padded component, other positions "
                        "'0', valid IBAN, national digits satisfy the rule; too long => the component's own class; "
                        "no exception outside the library family")
