"""C10 - whitespace and letter case never matter; formatting round-trips."""
from __future__ import annotations

import os
import random
import re
import time

import z3

from contracts import common as CC
from pyvc import task as T
from pyvc.values import SFn, SObj, SOpaqueStr, SStr, Unsupported, lift_str, payload

ROOT = os.path.dirname(os.path.dirname(os.path.abspath(__file__)))
LEAN_THEOREMS = ["clean_append", "clean_insert_ws", "clean_case", "clean_of_fix", "clean_idem"]


class CleanBodyTask(T.Task):
    """common.clean(s) is UPPER(SUB_class(s)): exactly one substitution of the live whitespace pattern by '' and one
    upper(), in that order (structural contract over an opaque string; the two external calls are assumed
    contracts whose character-level content is decided by contracts.unicode_facts)"""
    name = "common.clean body"
    crosscheck_samples = 300

    def setup(self, I):
        return {"s": SOpaqueStr("s")}

    def code(self, I, inp):
        from schwifty import common
        return I.call(common.clean, [inp["s"]], {})

    def custom_obligations(self, I, inp, code_paths, cobs):
        out = []
        for i, (path, o) in enumerate(cobs):
            term = o.term if isinstance(o, SOpaqueStr) else repr(o)
            ok = re.fullmatch(r"re\.sub\(pattern='[^']*', flags=\d+, repl='', string=s\)\.upper\(\)", term) is not None
            out.append((f"path {i}: clean(s) = upper(sub(ws+, '', s))   [got {term}]", path["pc"], z3.BoolVal(ok)))
        return out

    def native_agree(self, inp):
        from schwifty import common
        s = inp["s"]
        exp = "".join(c.upper() for c in s if not re.match(r"\s", c))
        got = T.native_obs(common.clean, s)
        return got == exp, got, exp

    def sample(self, rnd):
        alphabet = "abcXYZ019 \t\n\r\x0b\x0c\x1c\x1d\x1e\x1f\x85\xa0       　ßéıǆ-_٣"
        return {"s": "".join(rnd.choice(alphabet) for _ in range(rnd.randrange(0, 24)))}


def _poison(name):
    def at(i):
        raise Unsupported(f"the raw text argument `{name}` is used other than by passing it to common.clean")
    ln = z3.Int(name + "_rawlen")
    r = SFn(ln, at, name)
    r.poison = True
    return r


class RawTextTask(T.Task):
    """constructors hand the raw text to common.clean and to nothing else: the payload is Clean(text) and every
    later step reads the payload only (so equal Clean(text) => equal outcome and equal object)"""

    def __init__(self, kind):
        self.kind = kind
        self.name = f"raw text only reaches clean [{kind}]"

    def setup(self, I):
        raw = _poison("raw")
        p = CC.fresh_clean_text(I, "p")
        I.assumptions.append(raw.len >= 0)
        if self.kind == "IBAN-DE":
            I.assumptions += [p.len >= 2, p.at(z3.IntVal(0)) == 68, p.at(z3.IntVal(1)) == 69]

        def clean_contract(I2, s):
            if payload(s) is raw:
                return p
            return CC.clean_contract(I2, s)
        from props.ibantasks import national_contract, table
        L = table()["DE"]["bban_length"]
        self.contracts = {"schwifty.common.clean": clean_contract,
                          "schwifty.checksum.numerify": CC.make_numerify_contract(L),
                          "schwifty.bban.BBAN.validate_national_checksum": national_contract}
        I.contracts.update(self.contracts)
        return {"raw": raw, "p": p}

    def code(self, I, inp):
        from schwifty import BBAN, BIC, IBAN
        raw = inp["raw"]
        if self.kind == "IBAN-unvalidated":
            return I.call(IBAN, [raw], {"allow_invalid": True})
        if self.kind == "IBAN-DE":
            return I.call(IBAN, [raw], {})
        if self.kind == "BIC-unvalidated":
            return I.call(BIC, [raw], {"allow_invalid": True})
        if self.kind == "BIC":
            return I.call(BIC, [raw], {})
        return I.call(BBAN, ["DE", raw], {})

    def custom_obligations(self, I, inp, code_paths, cobs):
        out = []
        for i, (path, o) in enumerate(cobs):
            if isinstance(o, T.Escape):
                continue
            if isinstance(o, SObj):
                out.append((f"path {i}: the object's payload is Clean(text)", path["pc"],
                            z3.BoolVal(payload(o) is inp["p"])))
            elif not isinstance(o, T.ExcTag):
                out.append((f"path {i}: outcome {o!r}", path["pc"], z3.BoolVal(False)))
            else:
                out.append((f"path {i}: raises {o.name} without reading the raw text", path["pc"], z3.BoolVal(True)))
        return out

    def native_agree(self, inp):
        return True, None, None

    def sample(self, rnd):
        return None


class FormattedTask(T.Task):
    """obj.formatted for objects of length n: IBAN: groups of four separated by single spaces; BIC: its parts
    separated by single spaces; removing the blanks gives the compact form back"""

    def __init__(self, cls, n):
        self.cls, self.n = cls, int(n)
        self.name = f"{cls}.formatted[len={n}]"
        self.contracts = {"schwifty.common.clean": CC.clean_contract}

    def setup(self, I):
        d = [z3.Int(f"c{i}") for i in range(self.n)]
        for x in d:
            I.assumptions += [CC.Fix(x), CC.fix_facts(x)]
        return {"p": SStr(d) if d else ""}

    def code(self, I, inp):
        import schwifty
        obj = I.call(getattr(schwifty, self.cls), [inp["p"]], {"allow_invalid": True})
        return I.getattr(obj, "formatted")

    def expected(self, chars):
        out = []
        if self.cls == "IBAN":
            for i, c in enumerate(chars):
                if i and i % 4 == 0:
                    out.append(32)
                out.append(c)
            return out
        # BIC: bank(0:4) country(4:6) location(6:8) [branch(8:11)] - a part is "" when the slice is out of range
        n = len(chars)

        def sl(a, b):
            return list(chars[a:b]) if a < n and b <= n else []
        parts = [sl(0, 4), sl(4, 6), sl(6, 8)]
        for k, part in enumerate(parts):
            if k:
                out.append(32)
            out += part
        br = sl(8, 11)
        if br:
            out += [32] + br
        return out

    def custom_obligations(self, I, inp, code_paths, cobs):
        chars = lift_str(inp["p"]).chars if self.n else []
        exp = self.expected(chars)
        out = []
        for i, (path, o) in enumerate(cobs):
            if isinstance(o, (T.Escape, T.ExcTag)):
                out.append((f"path {i}: formatted raised {o!r}", path["pc"], z3.BoolVal(False)))
                continue
            got = lift_str(o).chars if not isinstance(o, str) else [z3.IntVal(ord(c)) for c in o]
            same = len(got) == len(exp) and all(
                (z3.is_int_value(g) and isinstance(e, int) and g.as_long() == e) or
                (not isinstance(e, int) and g.get_id() == e.get_id()) or
                (isinstance(e, int) and z3.is_int_value(z3.simplify(g)) and z3.simplify(g).as_long() == e)
                for g, e in zip(got, exp))
            goal = z3.BoolVal(True) if same else (
                z3.And(*[g == (z3.IntVal(e) if isinstance(e, int) else e) for g, e in zip(got, exp)])
                if len(got) == len(exp) else z3.BoolVal(False))
            out.append((f"path {i}: formatted = the parts separated by single blanks", path["pc"], goal))
        if self.cls == "IBAN" or self.n in (8, 11):
            no_blank = [e for e in exp if not isinstance(e, int)]
            out.append(("removing the blanks from the specified form gives the compact form (then Clean(formatted) = "
                         "compact by lemma clean_insert_ws / clean_of_fix)", [],
                        z3.BoolVal(len(no_blank) == len(chars) and all(a.get_id() == b.get_id() for a, b in zip(no_blank, chars)))))
        return out

    def native_agree(self, inp):
        import schwifty
        p = inp["p"]
        obj = getattr(schwifty, self.cls)(p, allow_invalid=True)
        got = obj.formatted
        if self.cls == "IBAN":
            exp = " ".join(p[i:i + 4] for i in range(0, len(p), 4))
        else:
            exp = "".join(chr(x) if isinstance(x, int) else x for x in self.expected(list(p)))
        ok = got == exp
        if self.cls == "IBAN" or len(p) in (8, 11):
            ok = ok and getattr(schwifty, self.cls)(got, allow_invalid=True) == obj
        return ok, got, exp

    def sample(self, rnd):
        return {"p": "".join(rnd.choice("ABCXYZ0189-Éß".upper()) for _ in range(self.n))}


def variants(rnd, text):
    ws = [" ", "\t", "\n", "\xa0", " ", "\r\n", "  "]
    # the pure forms first: case only (no whitespace at all), whitespace only (case untouched), one leading blank
    out = [text.lower(), text.swapcase(), " ".join(text), text + "\n", "\xa0" + text, text[:2] + "\u3000" + text[2:].lower()]
    for _ in range(4):
        s = ""
        for ch in text:
            if rnd.random() < 0.3:
                s += rnd.choice(ws)
            s += ch.lower() if rnd.random() < 0.5 else ch
        if rnd.random() < 0.5:
            s += rnd.choice(ws)
        out.append(s)
    return out


def bounded_variants(seed, n_per_country):
    """bounded native confirmation: whitespace / case variants give the same outcome and equal objects"""
    from schwifty import BIC, IBAN
    from props.ibantasks import IbanTask, table
    rnd = random.Random(seed)
    count = 0
    for cc in sorted(table()):
        t = IbanTask(cc)
        for _ in range(n_per_country):
            p = t.sample(rnd)["p"]
            ref = T.native_obs(lambda: IBAN(p))
            for v in variants(rnd, p):
                count += 1
                got = T.native_obs(lambda: IBAN(v))
                same = (isinstance(ref, T.ExcTag) and got == ref) or (not isinstance(ref, (T.ExcTag, T.Escape)) and
                                                                      not isinstance(got, (T.ExcTag, T.Escape)) and
                                                                      got == ref and str(got) == str(ref) and
                                                                      " " not in got.compact and got.compact == got.compact.upper())
                if not same:
                    return count, dict(text=p, variant=v, outcome=repr(ref), variant_outcome=repr(got))
            # the alternate constructor: IBAN.from_bban(country, bban text) on the same variants of the BBAN part
            if len(p) > 4:
                ref = T.native_obs(lambda: IBAN.from_bban(p[:2], p[4:]))
                for v in variants(rnd, p[4:])[:6]:
                    count += 1
                    got = T.native_obs(lambda: IBAN.from_bban(p[:2].lower(), v))
                    same = (isinstance(ref, T.ExcTag) and got == ref) or (
                        not isinstance(ref, (T.ExcTag, T.Escape)) and not isinstance(got, (T.ExcTag, T.Escape)) and got == ref)
                    if not same:
                        return count, dict(text=p, variant=v, via="from_bban", outcome=repr(ref), variant_outcome=repr(got))
            # generation from components: whitespace / case inside a component must not matter either (also when the
            # component is shorter than its field and gets padded)
            x = T.native_obs(lambda: IBAN(p))
            if not isinstance(x, (T.ExcTag, T.Escape)) and x.account_code and x.bank_code:
                acct = x.account_code.lstrip("0") or "0"
                comps = (x.bank_code, acct, x.branch_code)
                ref = T.native_obs(lambda: IBAN.generate(cc, comps[0], comps[1], comps[2]))
                for j in range(3):
                    va = " ".join(acct[k:k + 3] for k in range(0, len(acct), 3)).lower() if j == 0 else variants(rnd, acct)[6 + j]
                    vb = comps[0].lower() if j == 1 else comps[0]
                    count += 1
                    got = T.native_obs(lambda: IBAN.generate(cc, vb, va, comps[2]))
                    same = (isinstance(ref, T.ExcTag) and got == ref) or (
                        not isinstance(ref, (T.ExcTag, T.Escape)) and not isinstance(got, (T.ExcTag, T.Escape)) and got == ref)
                    if not same:
                        return count, dict(text=p, variant=[cc, vb, va, comps[2]], via="generate", components=[cc, *comps],
                                           outcome=repr(ref), variant_outcome=repr(got))
    for p in ["GENODEM1GLS", "MARKDEF1100", "DEUTDEFF", "GENODEM1GL", "1234DEWWXXX", "AAAAXX22"]:
        ref = T.native_obs(lambda: BIC(p))
        for v in variants(rnd, p):
            count += 1
            got = T.native_obs(lambda: BIC(v))
            same = (isinstance(ref, T.ExcTag) and got == ref) or (not isinstance(ref, (T.ExcTag, T.Escape)) and not
                                                                  isinstance(got, (T.ExcTag, T.Escape)) and got == ref)
            if not same:
                return count, dict(text=p, variant=v, outcome=repr(ref), variant_outcome=repr(got))
    return count, None


class VariantReplay:
    def native_agree(self, wit):
        from schwifty import BIC, IBAN
        cls = IBAN if len(wit["text"]) > 11 else BIC
        if wit.get("via") == "generate":
            a = T.native_obs(lambda: IBAN.generate(*wit["components"]))
            b = T.native_obs(lambda: IBAN.generate(*wit["variant"]))
        elif wit.get("via") == "from_bban":
            a = T.native_obs(lambda: IBAN.from_bban(wit["text"][:2], wit["text"][4:]))
            b = T.native_obs(lambda: IBAN.from_bban(wit["text"][:2].lower(), wit["variant"]))
        else:
            a = T.native_obs(lambda: cls(wit["text"]))
            b = T.native_obs(lambda: cls(wit["variant"]))
        same = (a == b) if isinstance(a, T.ExcTag) else (not isinstance(b, (T.ExcTag, T.Escape)) and a == b)
        return same, repr(b), repr(a)


def main(seed, tier):
    from contracts import unicode_facts
    from props import common, leanrun
    t0 = time.time()
    specs = [("props.c10", "CleanBodyTask", ())]
    specs += [("props.c10", "RawTextTask", (k,)) for k in ("IBAN-unvalidated", "IBAN-DE", "BIC-unvalidated", "BIC", "BBAN")]
    max_n = 64 if tier == "thorough" else 36
    specs += [("props.c10", "FormattedTask", ("IBAN", n)) for n in range(0, max_n + 1)]
    specs += [("props.c10", "FormattedTask", ("BIC", n)) for n in range(0, 15)]
    results = common.run_tasks(specs, seed, tier)
    facts, stats = unicode_facts.check()
    results.append(dict(task="unicode facts (exhaustive enumeration of 1,114,112 code points)", functions={}, files={},
                        paths=0, error=None, spec=None,
                        obligations=[dict(name=f["name"], status="discharged" if f["ok"] else "refuted",
                                          backend="exhaustive enumeration (cpython)", secs=0.0,
                                          witness=(f["witness"] or None) if not f["ok"] else None,
                                          detail=("replayed natively: " + f["detail"]) if not f["ok"] else "", kind="vc")
                                     for f in facts]))
    ok, lobls, text, secs = leanrun.run(os.path.join(ROOT, "lemmas", "C10.lean"), LEAN_THEOREMS)
    results.append(dict(task="lean lemmas C10", obligations=lobls, functions={}, files={}, paths=0,
                        error=None if ok is not None else f"checker fault: {text}", spec=None))
    n, wit = bounded_variants(seed, 3 if tier == "thorough" else 1)
    if wit is not None:
        results.append(dict(task="bounded native variant sweep", functions={}, files={}, paths=0, error=None,
                            spec=["props.c10", "VariantReplay", []],
                            obligations=[dict(name="whitespace/case variant changes the outcome (bounded sweep)",
                                              status="refuted", backend="cpython", secs=0.0, witness=wit,
                                              detail=f"replayed natively: {wit}", kind="bounded")]))
    return common.finish(
        "C10", results, t0, seed, tier,
        assumptions=["A3 Pattern.sub('', s) for a pattern of the shape (class)+ removes exactly the characters of the "
                     "class; str.upper is the per-character map (no context rule) - both probed, assumed in general; "
                     "their character tables are enumerated completely on every run",
                     "objects built with allow_invalid=True: formatted is proved per length 0..36 (quick) / 0..64 "
                     "(thorough) - complete for accepted objects (<= 34), bounded in length beyond",
                     "equal payload => equal outcome rests on the constructors reading only the payload "
                     "(RawTextTask) and on C15 (no hidden state)"],
        extra_cov=dict(unicode=stats, lean_seconds=round(secs, 1),
                       bounded_parts=[dict(what="native sweep: whitespace (blank, tab, newline, NBSP, EM SPACE, CRLF) and "
                                                "case variants of sampled texts give the same outcome / equal objects",
                                           variants=n)]),
        not_proved_note="clean body (structural), character facts by exhaustive enumeration, Clean invariance lemmas "
                        "in Lean for arbitrary ws/up, formatted per length against the grouping spec")
