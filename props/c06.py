"""C06 - national check digits are judged by the country's published algorithm."""
from __future__ import annotations

import time

import z3

from contracts import common as CC
from contracts import national as N
from pyvc import task as T

REJECT = "rejected (library error raised)"


def contracts():
    return {"schwifty.common.clean": CC.clean_contract,
            "schwifty.checksum.numerify": CC.make_numerify_contract("auto"),
            "contracts.common.Num": CC.make_num_spec_contract("auto"),
            "schwifty.bban.BBAN.bank": CC.make_bank_contract(),
            "schwifty.checksum.italy.get_index": get_index_contract,
            "schwifty.checksum.luhn": luhn_contract}


def get_index_contract(I, char):
    """contract of italy.get_index: requires one character in [0-9A-Za-z]; ensures digit -> 0..9, letter -> 0..25
    (verified against the real body by GetIndexTask)"""
    from pyvc.values import SInt, lift_str, payload, concretize
    v = payload(char)
    if isinstance(v, str):
        from schwifty.checksum import italy
        try:
            return italy.get_index(v)
        except ValueError as ex:
            from pyvc.values import Raised
            raise Raised(ex)
    c = lift_str(v)
    if len(c) != 1:
        from pyvc.values import Unsupported
        raise Unsupported("get_index of a multi-character string")
    c = c.chars[0]
    I.oblige("italy.get_index.requires(char in [0-9A-Za-z])",
             z3.Or(CC.z_digit(c), CC.z_upper(c), z3.And(c >= 97, c <= 122)))
    return concretize(SInt(z3.If(c <= 57, c - 48, z3.If(c <= 90, c - 65, c - 97))))


def luhn_contract(I, value):
    """contract of checksum.luhn: requires all characters ASCII digits; ensures the one-digit string of
    (10 - Luhn sum) mod 10 (verified against the real body by LuhnTask for the lengths that reach it)"""
    from pyvc.values import SStr, lift_str, payload
    v = payload(value)
    if isinstance(v, str):
        from schwifty import checksum
        return checksum.luhn(v)
    s = lift_str(I.materialize(v))
    I.oblige("checksum.luhn.requires(all ASCII digits)", z3.And(*[CC.z_digit(c) for c in s.chars]))
    I.luhn_lengths = getattr(I, "luhn_lengths", set()) | {len(s)}
    t = z3.IntVal(0)
    for k, c in enumerate(reversed(s.chars)):
        p = (c - 48) * (2 - k % 2)
        t = t + (z3.If(p >= 10, p - 9, p) if k % 2 == 0 else p)
    return SStr([48 + (10 - t % 10) % 10])


class GetIndexTask(T.Task):
    name = "italy.get_index"

    def setup(self, I):
        c = z3.Int("ch")
        I.assumptions.append(z3.Or(CC.z_digit(c), CC.z_upper(c), z3.And(c >= 97, c <= 122)))
        from pyvc.values import SStr
        return {"ch": SStr([c])}

    def code(self, I, inp):
        from schwifty.checksum import italy
        return I.call(italy.get_index, [inp["ch"]], {})

    def spec(self, I, inp):
        return get_index_contract(I, inp["ch"])

    def native_code(self, inp):
        from schwifty.checksum import italy
        return T.native_obs(italy.get_index, inp["ch"])

    def native_spec(self, inp):
        ch = inp["ch"]
        return ord(ch) - 48 if ch <= "9" else (ord(ch) - 65 if ch <= "Z" else ord(ch) - 97)

    def sample(self, rnd):
        return {"ch": rnd.choice("0123456789ABCDEFGHIJKLMNOPQRSTUVWXYZabcdefghijklmnopqrstuvwxyz")}


class LuhnTask(T.Task):
    def __init__(self, n):
        self.n = int(n)
        self.name = f"checksum.luhn[len={n}]"

    def setup(self, I):
        from pyvc.values import SStr
        d = [z3.Int(f"a{i}") for i in range(self.n)]
        I.assumptions += [CC.z_digit(x) for x in d]
        for x in d:
            I.domains[x.decl().name()] = CC.DOMAIN["n"]
        return {"v": SStr(d)}

    def code(self, I, inp):
        from schwifty import checksum
        return I.call(checksum.luhn, [inp["v"]], {})

    def spec(self, I, inp):
        return luhn_contract(I, inp["v"])

    def native_code(self, inp):
        from schwifty import checksum
        return T.native_obs(checksum.luhn, inp["v"])

    def native_spec(self, inp):
        t = 0
        for k, ch in enumerate(reversed(inp["v"])):
            p = int(ch) * (2 - k % 2)
            t += p // 10 + p % 10
        return str((10 - t % 10) % 10)

    def sample(self, rnd):
        return {"v": "".join(rnd.choice("0123456789") for _ in range(self.n))}


def observe_nat(path):
    o = T.std_observe(path)
    if isinstance(o, T.ExcTag) and o.name in ("InvalidBBANChecksum", "InvalidAccountCode"):
        return REJECT
    return o


class NatTask(T.Task):
    """BBAN(K, b).validate_national_checksum() for every class-conforming BBAN b of country K"""

    def __init__(self, cc):
        self.cc = cc
        self.name = f"{cc}: BBAN.validate_national_checksum"
        self.contracts = contracts()
        if cc in N.BAND:
            lo, up = N.BAND[cc]
            self.lower = lambda I, inp: I.call(lo, [inp["b"]], {})
            self.upper = lambda I, inp: I.call(up, [inp["b"]], {})

    def setup(self, I):
        b, self.cl = CC.sym_bban(I, self.cc)
        return {"b": b}

    def code(self, I, inp):
        from schwifty import BBAN
        obj = I.call(BBAN, [self.cc, inp["b"]], {})
        return I.call(I.getattr(obj, "validate_national_checksum"), [], {})

    def observe(self, I, path):
        return observe_nat(path)

    def spec(self, I, inp):
        fn = N.EXACT.get(self.cc)
        if fn is None:
            return True          # country without a national algorithm: unaffected
        return I.call(fn, [inp["b"]], {})

    def observe_spec(self, I, path):
        o = T.std_observe(path)
        if o is True or o is False or self.cc in N.BAND:
            return o if self.cc in N.BAND else (True if o is True else REJECT)
        from pyvc.values import SBool
        if isinstance(o, SBool):
            return SpecVerdict(o.t)
        return o

    def native_code(self, inp):
        from schwifty import BBAN
        o = T.native_obs(lambda: BBAN(self.cc, inp["b"]).validate_national_checksum())
        if isinstance(o, T.ExcTag) and o.name in ("InvalidBBANChecksum", "InvalidAccountCode"):
            return False if self.cc in N.BAND else REJECT
        return o

    def native_spec(self, inp):
        fn = N.EXACT.get(self.cc)
        ok = True if fn is None else fn(inp["b"])
        return True if ok else REJECT

    def native_band(self, inp):
        if self.cc in N.BAND:
            lo, up = N.BAND[self.cc]
            return lo(inp["b"]), up(inp["b"])
        return None

    def sample(self, rnd):
        b = "".join(rnd.choice({"n": "0123456789", "a": "ABCDEFGHIJKLMNOPQRSTUVWXYZ",
                                "c": "0123456789ABCDEFGHIJKLMNOPQRSTUVWXYZ"}[k]) for k in self.cl)
        fn = N.EXACT.get(self.cc) or (N.BAND[self.cc][0] if self.cc in N.BAND else None)
        if fn is not None and rnd.random() < 0.5:
            # populate the accept side: search the check field for a value the independent spec accepts
            from schwifty import registry
            pos = registry.get("iban")[self.cc]["positions"].get("national_checksum_digits")
            if pos and pos != [0, 0]:
                a, e = pos
                alphabet = "ABCDEFGHIJKLMNOPQRSTUVWXYZ" if self.cl[a] == "a" else "0123456789"
                import itertools
                for tup in itertools.product(alphabet, repeat=e - a):
                    cand = b[:a] + "".join(tup) + b[e:]
                    if fn(cand):
                        return {"b": cand}
        return {"b": b}


class SpecVerdict:
    """symbolic spec verdict: True when t holds, REJECT otherwise"""

    def __init__(self, t):
        self.t = t


_obs_eq = T.obs_eq


def obs_eq(I, a, b):
    if isinstance(b, SpecVerdict):
        a, b = b, a
    if isinstance(a, SpecVerdict):
        if b is True:
            return a.t
        if b == REJECT:
            return z3.Not(a.t)
        return False
    return _obs_eq(I, a, b)


T.obs_eq = obs_eq


def main(seed, tier):
    from props import common
    from schwifty import registry
    t0 = time.time()
    table = registry.get("iban")
    ccs = sorted(table)
    specs = [("props.c06", "LuhnTask", (13,)), ("props.c06", "GetIndexTask", ())]
    specs += [("props.c06", "NatTask", (cc,)) for cc in ccs if cc != "DE"]
    # the flag reaches the national check through every constructor: IBAN.from_bban(K, b, validate_bban=flag)
    from props import c02
    specs += [x for x in c02.from_bban_flag_specs([cc for cc in N.COUNTRIES_22 if cc in table]) if x[2][1] == table[x[2][0]]["bban_length"]]
    results = common.run_tasks(specs, seed, tier)
    missing = [cc for cc in N.COUNTRIES_22 if cc not in table]
    if missing:
        results.append(dict(task="table", obligations=[], error=f"unsupported: countries {missing} named by C06 are "
                            "not in the bundled table", functions={}, files={}, paths=0))
    return common.finish(
        "C06", results, t0, seed, tier,
        extra_cov=dict(countries_with_algorithm=N.COUNTRIES_22, countries_without=len(ccs) - 1 - len(N.COUNTRIES_22),
                       sandwich_bands=[]),
        assumptions=["A10 the published national rules are as transcribed in contracts/national.py",
                     "NO, account numbers whose 5th and 6th digits are 00: the rule 'the bank identifier is left out of "
                     "the sum' (weights 5,4,3,2 over the last four account digits) is the library's documented reading; "
                     "it could not be re-read from an independent source offline and is taken as the published rule "
                     "(earlier versions of this check left these accounts unspecified and were blind to changes there)",
                     "contract of common.clean (Clean(s)=s for clean s) and of checksum.numerify (=Num) are verified "
                     "by their own tasks (C10 / numerify tasks)",
                     "contract of BBAN.bank (None or a registry entry of the BBAN's country) is proved under C12; "
                     "here the caller sees an arbitrary such entry",
                     "DE is covered by C07"],
        not_proved_note="per country: BBAN(K,b).validate_national_checksum() returns True iff the sidecar national "
                        "spec accepts b, else raises a library error; countries without algorithm always return True")
