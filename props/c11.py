"""C11 - an IBAN or BIC decomposes losslessly into its published fields."""
from __future__ import annotations

import time

import z3

from contracts import common as CC
from pyvc import task as T
from pyvc.values import SObj, SStr, lift_str, payload

COMPONENTS = ["bank_code", "branch_code", "account_code", "national_checksum_digits", "account_type", "account_id",
              "account_holder_id", "currency_code"]


def _contracts(L):
    return {"schwifty.common.clean": CC.clean_contract,
            "schwifty.checksum.numerify": CC.make_numerify_contract(L),
            "contracts.common.Num": CC.make_num_spec_contract(L)}


class DecomposeTask(T.Task):
    """for every structure-conforming text p of country K (a superset of the accepted IBANs): the accessors of the
    IBAN and of its BBAN return the BBAN substrings at the positions the table publishes"""

    def __init__(self, cc):
        from props.ibantasks import table
        self.cc = cc
        self.name = f"IBAN decomposition[{cc}]"
        self.spec_entry = table()[cc]
        self.L = self.spec_entry["bban_length"]
        self.contracts = _contracts(self.L)

    def setup(self, I):
        b, self.cl = CC.sym_bban(I, self.cc)
        x, y = z3.Int("x"), z3.Int("y")
        for d in (x, y):
            I.assumptions += [CC.z_digit(d), CC.Fix(d)]
        self.p = SStr([z3.IntVal(ord(c)) for c in self.cc] + [x, y] + b.chars)
        return {"b": b, "dd": SStr([x, y])}

    def code(self, I, inp):
        from schwifty import IBAN
        obj = I.call(IBAN, [self.p], {"allow_invalid": True})
        out = {"country_code": I.getattr(obj, "country_code"), "checksum_digits": I.getattr(obj, "checksum_digits"),
               "bban": payload(I.getattr(obj, "bban")), "bban.country_code": I.getattr(I.getattr(obj, "bban"), "country_code"),
               "compact": I.getattr(obj, "compact"), "length": I.getattr(obj, "length")}
        for c in COMPONENTS:
            out[c] = I.getattr(obj, c)
            out["bban." + c] = I.getattr(I.getattr(obj, "bban"), c)
        return out

    def expected(self):
        chars = self.p.chars
        bban = chars[4:]
        exp = {"country_code": SStr(chars[0:2]), "checksum_digits": SStr(chars[2:4]), "bban": SStr(bban),
               "bban.country_code": SStr(chars[0:2]), "compact": self.p, "length": len(chars)}
        pos = self.spec_entry.get("positions", {})
        for c in COMPONENTS:
            a, e = pos.get(c, [0, 0])
            v = SStr(bban[a:e]) if (a, e) != (0, 0) and a < len(bban) and e <= len(bban) else ""
            if (a, e) == (0, 0):
                v = ""
            exp[c] = v
            exp["bban." + c] = v
        return exp

    def custom_obligations(self, I, inp, code_paths, cobs):
        exp = self.expected()
        out = []
        for i, (path, o) in enumerate(cobs):
            if isinstance(o, T.Escape):
                continue
            if not isinstance(o, dict):
                out.append((f"path {i}: accessors raised {o!r}", path["pc"], z3.BoolVal(False)))
                continue
            for k in sorted(exp):
                e = T.obs_eq(I, o[k], exp[k])
                out.append((f"path {i}: {k} = the published substring", path["pc"], T.as_formula(e)))
        # fields never overlap (data invariant of the table, evaluated)
        pos = [(c, tuple(v)) for c, v in self.spec_entry.get("positions", {}).items() if tuple(v) != (0, 0)]
        ok = all(a[1][1] <= b[1][0] or b[1][1] <= a[1][0] for i, a in enumerate(pos) for b in pos[i + 1:])
        inside = all(0 <= a < e <= self.L for _, (a, e) in pos)
        out.append(("published positions lie inside the BBAN and do not overlap", [], z3.BoolVal(ok and inside)))
        return out

    def native_agree(self, inp):
        from schwifty import IBAN
        p = self.cc + inp["dd"] + inp["b"]
        obj = IBAN(p, allow_invalid=True)
        pos = self.spec_entry.get("positions", {})
        bad = []
        if obj.country_code + obj.checksum_digits + str(obj.bban) != obj.compact or obj.compact != p:
            bad.append("concatenation")
        for c in COMPONENTS:
            a, e = pos.get(c, [0, 0])
            want = p[4:][a:e] if (a, e) != (0, 0) else ""
            if getattr(obj, c) != want or getattr(obj.bban, c) != want:
                bad.append(c)
        # fields never overlap: the spans the live object uses (its effective spec), pairwise
        live = [(c, tuple(v)) for c, v in obj.bban.spec.get("positions", {}).items() if tuple(v) != (0, 0)]
        for i, (c1, (a1, e1)) in enumerate(live):
            if not 0 <= a1 < e1 <= len(p) - 4:
                bad.append(f"{c1} {a1, e1} lies outside the BBAN")
            for c2, (a2, e2) in live[i + 1:]:
                if not (e1 <= a2 or e2 <= a1):
                    bad.append(f"{c1} {a1, e1} = {getattr(obj, c1)!r} overlaps {c2} {a2, e2} = {getattr(obj, c2)!r}")
        return not bad, bad, []

    def sample(self, rnd):
        b = "".join(rnd.choice({"n": "0123456789", "a": "ABCDEFGHIJKLMNOPQRSTUVWXYZ",
                                "c": "0123456789ABCDEFGHIJKLMNOPQRSTUVWXYZ"}[k]) for k in self.cl)
        return {"b": b, "dd": f"{rnd.randrange(100):02d}"}


class ReassembleTask(T.Task):
    """for every ACCEPTED IBAN x of country K: IBAN.from_bban(x.country_code, x.bban) == x"""

    def __init__(self, cc, lenient=""):
        from props.ibantasks import national_contract, table
        self.cc = cc
        self.lenient = bool(lenient)
        self.name = f"IBAN.from_bban(x.country_code, x.bban{', allow_invalid=True' if self.lenient else ''}) == x [{cc}]"
        self.L = table()[cc]["bban_length"]
        self.contracts = _contracts(self.L)
        if self.lenient:
            # re-assembly must not depend on the national check: if the flag were (wrongly) passed on, this contract
            # makes the national verdict arbitrary
            self.contracts["schwifty.bban.BBAN.validate_national_checksum"] = national_contract

    def setup(self, I):
        b, self.cl = CC.sym_bban(I, self.cc)
        x, y = z3.Int("x"), z3.Int("y")
        for d in (x, y):
            I.assumptions += [CC.z_digit(d), CC.Fix(d)]
            I.domains[d.decl().name()] = CC.DOMAIN["n"]
        self.p = SStr([z3.IntVal(ord(c)) for c in self.cc] + [x, y] + b.chars)
        return {"b": b, "dd": SStr([x, y])}

    def code(self, I, inp):
        from schwifty import IBAN
        obj = I.call(IBAN, [self.p], {})
        r = I.call(I.getattr(IBAN, "from_bban"), [I.getattr(obj, "country_code"), I.getattr(obj, "bban")],
                   {"allow_invalid": True} if self.lenient else {})
        return ("REBUILT", payload(r))

    def custom_obligations(self, I, inp, code_paths, cobs):
        out = []
        n_ok = 0
        for i, (path, o) in enumerate(cobs):
            if isinstance(o, T.Escape):
                continue
            if isinstance(o, tuple) and o[0] == "REBUILT":
                n_ok += 1
                out.append((f"path {i}: the re-assembled IBAN equals the original", path["pc"],
                            T.as_formula(T.obs_eq(I, o[1], self.p))))
            elif isinstance(o, T.ExcTag) and o.name == "InvalidChecksumDigits":
                out.append((f"path {i}: (text not accepted: nothing to show)", path["pc"], z3.BoolVal(True)))
            else:
                out.append((f"path {i}: outcome {o!r} not admitted", path["pc"], z3.BoolVal(False)))
        out.append(("some path accepts (the obligation is not vacuous)", [], z3.BoolVal(n_ok > 0)))
        return out

    def native_agree(self, inp):
        from schwifty import IBAN
        from schwifty.exceptions import SchwiftyException
        p = self.cc + inp["dd"] + inp["b"]
        try:
            x = IBAN(p)
        except SchwiftyException:
            return True, "rejected", "rejected"
        try:
            r = IBAN.from_bban(x.country_code, x.bban, allow_invalid=True) if self.lenient else IBAN.from_bban(x.country_code, x.bban)
        except SchwiftyException as ex:
            return False, f"raises {type(ex).__name__}", p
        return r == x and str(r) == p, str(r), p

    def sample(self, rnd):
        b = "".join(rnd.choice({"n": "0123456789", "a": "ABCDEFGHIJKLMNOPQRSTUVWXYZ",
                                "c": "0123456789ABCDEFGHIJKLMNOPQRSTUVWXYZ"}[k]) for k in self.cl)
        k = 98 - (CC.Num(b + self.cc) * 100) % 97
        return {"b": b, "dd": f"{k:02d}" if rnd.random() < 0.8 else f"{rnd.randrange(100):02d}"}


class BicPartsTask(T.Task):
    """for every text of length n in {8, 11} (a superset of the accepted BICs): party prefix + country code +
    location code (+ branch code) = compact form, each part at its ISO 9362 position"""

    def __init__(self, n):
        self.n = int(n)
        self.name = f"BIC decomposition[len={n}]"
        self.contracts = {"schwifty.common.clean": CC.clean_contract}

    def setup(self, I):
        d = [z3.Int(f"c{i}") for i in range(self.n)]
        for x in d:
            I.assumptions += [CC.Fix(x), CC.fix_facts(x)]
        return {"p": SStr(d)}

    def code(self, I, inp):
        from schwifty import BIC
        obj = I.call(BIC, [inp["p"]], {"allow_invalid": True})
        return {k: I.getattr(obj, k) for k in ("bank_code", "country_code", "location_code", "branch_code", "compact")}

    def custom_obligations(self, I, inp, code_paths, cobs):
        c = inp["p"].chars
        exp = {"bank_code": SStr(c[0:4]), "country_code": SStr(c[4:6]), "location_code": SStr(c[6:8]),
               "branch_code": SStr(c[8:11]) if self.n == 11 else "", "compact": inp["p"]}
        out = []
        for i, (path, o) in enumerate(cobs):
            if not isinstance(o, dict):
                out.append((f"path {i}: accessors raised {o!r}", path["pc"], z3.BoolVal(False)))
                continue
            for k in sorted(exp):
                out.append((f"path {i}: {k} = its ISO 9362 substring", path["pc"], T.as_formula(T.obs_eq(I, o[k], exp[k]))))
        return out

    def native_agree(self, inp):
        from schwifty import BIC
        p = inp["p"]
        o = BIC(p, allow_invalid=True)
        ok = (o.bank_code, o.country_code, o.location_code, o.branch_code) == (p[0:4], p[4:6], p[6:8], p[8:11]) \
            and o.bank_code + o.country_code + o.location_code + o.branch_code == o.compact == p
        return ok, (o.bank_code, o.country_code, o.location_code, o.branch_code), p

    def sample(self, rnd):
        return {"p": "".join(rnd.choice("ABCDEFGHXYZ0189") for _ in range(self.n))}


class BicAcceptedPartsTask(T.Task):
    """for every cleaned text p of ANY length: if BIC(p) is accepted, then len(p) is 8 or 11 and party prefix + country
    code + location code + optional branch code is the compact form (the fixed-length tasks above cover the slices)"""
    crosscheck_samples = 600

    def __init__(self):
        self.name = "accepted BIC: parts tile the compact form [any length]"
        self.contracts = {"schwifty.common.clean": CC.clean_contract}

    def setup(self, I):
        return {"p": CC.fresh_clean_text(I, "p")}

    def code(self, I, inp):
        from schwifty import BIC
        obj = I.call(BIC, [inp["p"]], {})
        return ("ACCEPTED", obj)

    def custom_obligations(self, I, inp, code_paths, cobs):
        from pyvc import solve
        p = inp["p"]
        out = []
        for i, (path, o) in enumerate(cobs):
            if isinstance(o, (T.Escape, T.ExcTag)):
                continue
            out.append((f"path {i}: an accepted BIC has 8 or 11 characters (so that 4 + 2 + 2 (+ 3) parts tile it)", path["pc"],
                        z3.Or(p.len == 8, p.len == 11)))
        return out

    def native_agree(self, inp):
        from schwifty import BIC
        p = inp["p"]
        o = T.native_obs(lambda: BIC(p))
        if isinstance(o, (T.ExcTag, T.Escape)):
            return not isinstance(o, T.Escape), o, "rejected"
        parts = (o.bank_code, o.country_code, o.location_code, o.branch_code)
        ok = "".join(parts) == o.compact == p and [len(x) for x in parts[:3]] == [4, 2, 2] and len(parts[3]) in (0, 3)
        return ok, parts, p

    def sample(self, rnd):
        n = rnd.choice([7, 8, 9, 10, 11, 12])
        body = "".join(rnd.choice("ABCDEFGHXYZ0189") for _ in range(n))
        return {"p": body[:4] + rnd.choice(["DE", "FR", "GB", "US"]) + body[6:]}


def main(seed, tier):
    from props import common, ibantasks
    t0 = time.time()
    ccs = sorted(ibantasks.table())
    specs = [("props.c11", "DecomposeTask", (cc,)) for cc in ccs] + [("props.c11", "ReassembleTask", (cc,)) for cc in ccs]
    specs += [("props.c11", "ReassembleTask", (cc, "lenient")) for cc in ("DE", "BE", "NO", "FR", "GB")]
    specs += [("props.c11", "BicPartsTask", (n,)) for n in (8, 11)] + [("props.c11", "BicAcceptedPartsTask", ())]
    results = common.run_tasks(specs, seed, tier)
    from props.c01 import ASSUMPTIONS
    return common.finish(
        "C11", results, t0, seed, tier, assumptions=ASSUMPTIONS + [
            "'published position' = the positions entry of the effective country table (its consistency is C17)",
            "accepted IBANs/BICs are covered through supersets: all structure-conforming texts of the country's "
            "length (IBAN), all texts of length 8 / 11 (BIC)"],
        extra_cov=dict(countries=len(ccs)),
        not_proved_note="per country: every accessor of IBAN and BBAN equals the published BBAN substring (or ''), "
                        "cc+dd+bban = compact, positions disjoint; accepted x: from_bban(x.cc, x.bban) = x; BIC parts")
