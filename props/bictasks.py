"""Tasks over the real BIC constructor / validate / is_valid (C04, C05, C10, C11)."""
from __future__ import annotations

import z3

from contracts import bic as B
from contracts import common as CC
from pyvc import task as T
from pyvc.values import SBool, SObj

LIB = ("InvalidLength", "InvalidStructure", "InvalidCountryCode")


def spec_clean(text):
    """the sidecar's own Clean: drop every character matched by \\s, upper-case the rest"""
    import re
    return "".join(ch.upper() for ch in text if not re.match(r"\s", ch))


def raw_variant(rnd, p):
    """a raw spelling of the compact text p: blanks, tabs, newlines, no-break and ideographic spaces inserted, ASCII
    letters lower-cased at random"""
    ws = [" ", "\t", "\n", "\xa0", "\u2003", "\u3000", "\r\n", "\x1c", "\u202f"]
    out = rnd.choice(ws) if rnd.random() < 0.3 else ""
    for ch in p:
        out += ch.lower() if rnd.random() < 0.5 else ch
        if rnd.random() < 0.3:
            out += rnd.choice(ws)
    return out


class BicTask(T.Task):
    """BIC(p, enforce_swift_compliance=flag) for every cleaned text p (any length) and both modes"""
    crosscheck_samples = 400

    def __init__(self, mode="construct"):
        self.mode = mode
        self.name = f"BIC.{mode}"
        self.contracts = {"schwifty.common.clean": CC.clean_contract}

    def setup(self, I):
        p = CC.fresh_clean_text(I, "p")
        return {"p": p, "strict": SBool(z3.Bool("enforce_swift_compliance"))}

    def code(self, I, inp):
        from schwifty import BIC
        if self.mode == "construct":
            return I.call(BIC, [inp["p"]], {"enforce_swift_compliance": inp["strict"]})
        obj = I.call(BIC, [inp["p"]], {"allow_invalid": True})
        if self.mode == "from-object":
            return I.call(BIC, [obj], {"enforce_swift_compliance": inp["strict"]})
        if self.mode == "is_valid":
            return I.getattr(obj, "is_valid")
        return I.call(I.getattr(obj, "validate"), [], {"enforce_swift_compliance": inp["strict"]})

    def observe(self, I, path):
        o = T.std_observe(path)
        return "ACCEPT" if isinstance(o, SObj) else o

    def custom_obligations(self, I, inp, code_paths, cobs):
        p = inp["p"]
        strict = inp["strict"] if self.mode != "is_valid" else False
        accept, c0 = T.spec_formula(I, B.accept_bic, [p, strict])
        d_len, c1 = T.spec_formula(I, B.bic_defect_length, [p, strict])
        d_str, c2 = T.spec_formula(I, B.bic_defect_structure, [p, strict])
        d_cc, c3 = T.spec_formula(I, B.bic_defect_country, [p, strict])
        out = [("spec functions are total on the domain", [], z3.And(c0, c1, c2, c3))]
        for i, (path, o) in enumerate(cobs):
            pc = path["pc"]
            if isinstance(o, T.Escape):
                continue
            if o == "ACCEPT" or o is True:
                out.append((f"path {i}: accepted => AcceptBIC(p, strict)", pc, accept))
            elif o is False and self.mode == "is_valid":
                out.append((f"path {i}: is_valid False => not AcceptBIC(p)", pc, z3.Not(accept)))
            elif isinstance(o, T.ExcTag) and o.name in LIB and self.mode != "is_valid":
                defect = {"InvalidLength": d_len, "InvalidStructure": d_str, "InvalidCountryCode": d_cc}[o.name]
                out.append((f"path {i}: raises {o.name} => that defect is present", pc, defect))
                out.append((f"path {i}: raises {o.name} => not accepted by the spec", pc, z3.Not(accept)))
            else:
                out.append((f"path {i}: outcome {o!r} is not an admitted outcome", pc, z3.BoolVal(False)))
        return out

    def native_code(self, inp):
        from schwifty import BIC
        if self.mode == "construct":
            o = T.native_obs(lambda: BIC(inp["p"], enforce_swift_compliance=inp["strict"]))
        elif self.mode == "from-object":
            o = T.native_obs(lambda: BIC(BIC(inp["p"], allow_invalid=True), enforce_swift_compliance=inp["strict"]))
        elif self.mode == "is_valid":
            o = T.native_obs(lambda: BIC(inp["p"], allow_invalid=True).is_valid)
        else:
            o = T.native_obs(lambda: BIC(inp["p"], allow_invalid=True).validate(inp["strict"]))
        if not isinstance(o, (T.ExcTag, T.Escape, bool)):
            return "ACCEPT"
        return o

    def native_agree(self, inp):
        # the real code gets the text as given (possibly with whitespace / lower case: the raw variants of the
        # sampler); the spec is evaluated on the sidecar's own Clean(text)
        p = spec_clean(inp["p"])
        strict = inp["strict"] if self.mode != "is_valid" else False
        c = self.native_code(inp)
        acc = bool(B.accept_bic(p, strict))
        if c == "ACCEPT" or c is True:
            return acc, c, f"AcceptBIC={acc}"
        if c is False and self.mode == "is_valid":
            return (not acc), c, f"AcceptBIC={acc}"
        if isinstance(c, T.ExcTag) and c.name in LIB and self.mode != "is_valid":
            d = {"InvalidLength": B.bic_defect_length, "InvalidStructure": B.bic_defect_structure,
                 "InvalidCountryCode": B.bic_defect_country}[c.name](p, strict)
            return bool(d) and not acc, c, f"AcceptBIC={acc} defect_present={bool(d)}"
        return False, c, f"AcceptBIC={acc} (outcome not admitted)"

    def sample(self, rnd):
        from pyvc import models
        from schwifty import common
        an = "ABCDEFGHIJKLMNOPQRSTUVWXYZ0123456789"
        cc = rnd.choice(models.iso_codes()) if rnd.random() < 0.7 else rnd.choice(["XK", "XX", "ZZ", "A1", "EU", "UK"])
        n = rnd.choice([8, 11, 8, 11, 8, 11, 0, 4, 7, 9, 10, 12, 14])
        p = "".join(rnd.choice(an if rnd.random() < 0.5 else "ABCDEFGHIJKLMNOPQRSTUVWXYZ") for _ in range(4)) + cc + \
            "".join(rnd.choice(an) for _ in range(5))
        p = p[:n] if n <= len(p) else p + "".join(rnd.choice(an) for _ in range(n - len(p)))
        if rnd.random() < 0.35 and p:
            i = rnd.randrange(len(p))
            p = p[:i] + rnd.choice("-_!É߀１٣.:/@") + p[i + 1:]
        p = common.clean(p)
        if rnd.random() < 0.25:
            p = raw_variant(rnd, p)
        return {"p": p, "strict": rnd.random() < 0.5}
