"""C18 - registry files compose in name order: deep later-wins merge, list concatenation.

merge_dicts is PROVED for abstract dictionaries of any size (MergeContractTask, pyvc/amap*.py); the rest is a bounded
stand-in plus exhaustive evaluation on the bundled files:
 (a) merge_dicts: every pair of nested dictionaries over a small key universe up to a stated depth/width is run
     through the REAL function and compared with the recursive spec Merge (+ frame: arguments unchanged);
     additionally pyvc executes the real body on every shape pair with SYMBOLIC leaves (all leaf values at once).
 (b) parse_v2: enumerated v2 documents against the expansion spec (+ pyvc with symbolic leaves).
 (c) get(): the effective tables of THIS tree are recomputed from the JSON files by an independent fold
     (name order, Merge / concatenation / v2 expansion) and compared with registry.get (exhaustive for the
     bundled files); overlay files are exercised in a scratch copy of the package (bounded)."""
from __future__ import annotations

import copy
import itertools
import json
import os
import shutil
import subprocess
import sys
import tempfile
import time

import z3

from pyvc import task as T
from pyvc.values import SInt, Unsupported


# ------------------------------------------------------------------------------------------------ specs
def Merge(left, right):
    """deep later-wins merge: keys of both; both values dicts -> merged recursively; otherwise right wins"""
    out = {}
    for k in left:
        if k in right:
            out[k] = Merge(left[k], right[k]) if isinstance(left[k], dict) and isinstance(right[k], dict) else right[k]
        else:
            out[k] = left[k]
    for k in right:
        if k not in left:
            out[k] = right[k]
    return out


def expand_v2(doc):
    out = []
    src, dst = doc["expand_from"], doc["expand_into"]
    for entry in doc["entries"]:
        rest = {k: v for k, v in entry.items() if k != src}
        rest.setdefault("primary", False)
        for value in entry[src]:
            out.append({**rest, dst: value})
    return out


def fold_registry(directory):
    """independent reading of the composition rule: files in name order"""
    data = None
    for name in sorted(os.listdir(directory)):
        if not name.endswith(".json"):
            continue
        chunk = json.load(open(os.path.join(directory, name), encoding="utf-8"))
        if name[:-5].endswith("v2"):
            chunk = expand_v2(chunk)
        if data is None:
            data = chunk
        elif isinstance(data, list):
            data = data + chunk
        else:
            data = Merge(data, chunk)
    return data


# ------------------------------------------------------------------------------------------------ shapes
def shapes(keys, depth):
    """all nested dict shapes over `keys` up to `depth`; leaves are the marker None"""
    if depth == 0:
        return [None]
    sub = shapes(keys, depth - 1)
    out = [None]
    for present in itertools.product([False, True], repeat=len(keys)):
        ks = [k for k, p in zip(keys, present) if p]
        for vals in itertools.product(sub, repeat=len(ks)):
            out.append(dict(zip(ks, vals)))
    return out


def fill(shape, gen):
    if shape is None:
        return next(gen)
    return {k: fill(v, gen) for k, v in shape.items()}


class MergeShapeTask(T.Task):
    """the real merge_dicts on one pair of shapes with symbolic integer leaves: result == Merge for ALL leaf values"""

    def __init__(self, idx):
        self.idx = int(idx)
        self.name = f"merge_dicts on shape block #{idx} (symbolic leaves)"

    def pairs(self):
        sh = [s for s in shapes(("a", "b"), 2) if isinstance(s, dict)]
        allp = list(itertools.product(sh, sh))
        return allp[self.idx::16]

    def setup(self, I):
        return {}

    def code(self, I, inp):
        from schwifty import registry
        out = []
        n = [0]

        def leaves():
            while True:
                n[0] += 1
                yield SInt(z3.Int(f"leaf{n[0]}"))
        for ls, rs in self.pairs():
            g = leaves()
            left, right = fill(ls, g), fill(rs, g)
            I.alloc(left)
            I.alloc(right)
            snap = (copy.deepcopy(ls), copy.deepcopy(rs))
            res = I.call(registry.merge_dicts, [left, right], {})
            out.append((left, right, res))
        return out

    def custom_obligations(self, I, inp, code_paths, cobs):
        out = []
        for i, (path, o) in enumerate(cobs):
            if not isinstance(o, list):
                out.append((f"path {i}: merge_dicts raised {o!r}", path["pc"], z3.BoolVal(False)))
                continue
            ok_all = []
            for left, right, res in o:
                ok_all.append(T.as_formula(T.obs_eq(I, res, Merge(left, right))))
            out.append((f"path {i}: result == Merge(left, right) on {len(o)} shape pairs, all leaf values", path["pc"],
                        z3.And(*ok_all) if ok_all else z3.BoolVal(True)))
        return out

    def native_agree(self, inp):
        return True, None, None

    def sample(self, rnd):
        return None


class ParseV2Task(T.Task):
    """the real parse_v2 on documents with e entries x j codes, every leaf (field values, codes, the optional
    `primary` flag) SYMBOLIC: result == one entry per code, in order, other fields copied, `primary` defaulting to
    False, the source list dropped.  Unbounded in the leaf values, BOUNDED in the shape (e, j <= 3)."""

    def __init__(self, src, dst):
        self.src, self.dst = src, dst
        self.name = f"parse_v2 (symbolic leaves) expand {src} -> {dst}"

    def setup(self, I):
        return {}

    def docs(self, concrete=False):
        n = [0]

        def leaf(tag):
            n[0] += 1
            return f"{tag}{n[0]}" if concrete else SInt(z3.Int(f"{tag}{n[0]}"))
        for n_entries in range(0, 4):
            for n_vals in ((0, 1, 2), (3, 0, 1), (1, 1, 1), (2, 3, 0))[n_entries][:max(n_entries, 1)] if n_entries else (0,):
                for variant in range(3):
                    entries = []
                    for i in range(n_entries):
                        e = {"name": leaf("name"), "bic": leaf("bic"), self.src: [leaf("code") for _ in range((n_vals + i) % 4)]}
                        if variant == 1 and i == 0:
                            e["primary"] = leaf("primary")
                        if variant == 2:
                            e[self.dst] = leaf("stale")        # a stale target field is overwritten by the expansion
                            e = dict(reversed(list(e.items())))
                        entries.append(e)
                    yield {"expand_from": self.src, "expand_into": self.dst, "entries": entries}

    def want(self, doc):
        want = []
        for e in doc["entries"]:
            for v in e[self.src]:
                w = {k: x for k, x in e.items() if k != self.src}
                w.setdefault("primary", False)
                w[self.dst] = v
                want.append(w)
        return want

    def code(self, I, inp):
        from schwifty import registry
        out = []
        for doc in self.docs():
            want = self.want(doc)
            for e in doc["entries"]:
                I.alloc(e)
                I.alloc(e[self.src])
            I.alloc(doc)
            I.alloc(doc["entries"])
            got = I.call(registry.parse_v2, [doc], {})
            out.append((got, want))
        return out

    def custom_obligations(self, I, inp, code_paths, cobs):
        out = []
        for i, (path, o) in enumerate(cobs):
            if not isinstance(o, list):
                out.append((f"path {i}: parse_v2 raised {o!r}", path["pc"], z3.BoolVal(False)))
                continue
            oks = [T.as_formula(T.obs_eq(I, got, want)) for got, want in o]
            shape = all(isinstance(got, list) and len(got) == len(want) and
                        all(isinstance(g, dict) and list(g) == list(w) or set(g) == set(w) for g, w in zip(got, want)) for got, want in o)
            out.append((f"path {i}: one entry per code, in order, fields copied, primary defaulted, on {len(o)} documents", path["pc"],
                        z3.And(z3.BoolVal(shape), *oks)))
        return out

    def native_agree(self, inp):
        # replay: the same documents with distinct concrete leaves, on the real function
        from schwifty import registry
        for doc in self.docs(concrete=True):
            want = self.want(doc)
            shown = copy.deepcopy(doc)
            got = T.native_obs(lambda: registry.parse_v2(doc))
            if got != want:
                return False, dict(document=shown, got=got if isinstance(got, list) else repr(got)), f"expected {want}"
        return True, None, None

    def sample(self, rnd):
        return None


class MergeContractTask(T.Task):
    """UNBOUNDED: the real merge_dicts on two abstract dictionaries (any size, any keys, any values): the result
    satisfies the contract of Merge pointwise for a generic key, assuming the recursive call satisfies the same
    contract (induction on the nesting depth - JSON values are finite trees); the arguments are not written."""
    name = "registry.merge_dicts (abstract dictionaries, all sizes)"
    skip_cover = True

    def setup(self, I):
        from pyvc import amap_hooks
        amap_hooks.install()
        return {}

    def code(self, I, inp):
        from pyvc import amap as A
        from pyvc import amap_hooks as H
        from schwifty import registry
        ml, mr = z3.Const("left", A.Map), z3.Const("right", A.Map)
        left, right = {}, {}
        H.register(I, left, A.AMap.of_term(ml, "left"), local=False)
        H.register(I, right, A.AMap.of_term(mr, "right"), local=False)

        def merge_contract(I2, a, b):
            # contract of the recursive call: requires both values to be dictionaries; ensures Merge(a, b)
            if not (isinstance(a, A.SVal) and isinstance(b, A.SVal)):
                raise Unsupported("recursive merge_dicts call on non-abstract values")
            I2.oblige("merge_dicts.requires(both arguments are dictionaries)", z3.And(A.is_map(a.t), A.is_map(b.t)))
            return A.SVal(A.of_map(A.MergeSpec(A.as_map(a.t), A.as_map(b.t))))
        # the function under verification is executed from its real body; every call it makes to merge_dicts (the
        # recursion) goes through the contract
        I.contracts["schwifty.registry.merge_dicts"] = merge_contract
        res = I.call_function(registry.merge_dicts, [left, right], {}, ignore_contract=True)
        am = H.amap_of(I, res)
        if am is None:
            if isinstance(res, dict) and not res:
                am = A.AMap.empty()
            else:
                raise Unsupported("merge_dicts did not return a dictionary")
        return ("MAP", am, ml, mr)

    def custom_obligations(self, I, inp, code_paths, cobs):
        from pyvc import amap as A
        out = []
        q = z3.Const("q", A.Key)
        for i, (path, o) in enumerate(cobs):
            if isinstance(o, (T.Escape, T.ExcTag)):
                out.append((f"path {i}: merge_dicts raised {o!r}", path["pc"], z3.BoolVal(False)))
                continue
            _, am, ml, mr = o
            hl, hr = A.m_has(ml, q), A.m_has(mr, q)
            gl, gr = A.m_get(ml, q), A.m_get(mr, q)
            both_maps = z3.And(A.is_map(gl), A.is_map(gr))
            out.append((f"path {i}: keys(result) = keys(left) | keys(right)", path["pc"], am.has(q) == z3.Or(hl, hr)))
            out.append((f"path {i}: key in both, both values dicts => result[key] = Merge(left[key], right[key])", path["pc"],
                        z3.Implies(z3.And(hl, hr, both_maps), am.get(q) == A.of_map(A.MergeSpec(A.as_map(gl), A.as_map(gr))))))
            out.append((f"path {i}: key in both, not both dicts => the later (right) value wins", path["pc"],
                        z3.Implies(z3.And(hl, hr, z3.Not(both_maps)), am.get(q) == gr)))
            out.append((f"path {i}: key only in left keeps left's value", path["pc"],
                        z3.Implies(z3.And(hl, z3.Not(hr)), am.get(q) == gl)))
            out.append((f"path {i}: key only in right keeps right's value", path["pc"],
                        z3.Implies(z3.And(hr, z3.Not(hl)), am.get(q) == gr)))
            shared = [w for w in path["writes"] if w.get("shared")]
            out.append((f"path {i}: the arguments are not written (frame)", path["pc"], z3.BoolVal(not shared)))
        return out

    def native_agree(self, inp):
        n, d, wit = enumerate_merge(2)
        return wit is None, wit, "Merge"

    def sample(self, rnd):
        return None


class GetFoldTask(T.Task):
    """registry.get on a directory of k files with ABSTRACT contents (dict registries: abstract dictionaries merged
    through the contract of merge_dicts; list registries: opaque lists): the result is the LEFT fold in file-name
    order - Merge(...Merge(Merge(c1, c2), c3)..., ck) resp. c1 + c2 + ... + ck with v2 files passed through parse_v2.
    Unbounded in the contents, bounded in the number of files (k <= 4).  File system and json are replaced by
    models (assumed: glob lists the *.json files, sorted() orders paths by name, json.load returns the document)."""
    skip_cover = True
    admitted_escapes = (ValueError,)        # empty directory: "Failed to load registry" (decided by the obligations below)

    def __init__(self, kind, names):
        self.kind = kind
        self.names = [n for n in names.split(",") if n]
        self.name = f"registry.get fold [{kind}] over files {self.names}"

    def setup(self, I):
        from pyvc import amap_hooks
        amap_hooks.install()
        return {}

    def code(self, I, inp):
        import json
        import pathlib
        from pyvc import amap as A
        from pyvc import amap_hooks as H
        from pyvc import models
        from schwifty import registry
        task = self
        PathCls = type(pathlib.Path("/"))
        chunks = {}
        self.terms = {}

        class FakeFP:
            def __init__(self, name):
                self.name = name

            def pyvc_enter(self, I2):
                return self

            def pyvc_exit(self, I2):
                pass

        class FakeFile(PathCls):
            def open(self, *a, **kw):
                return FakeFP(self.name)

        class FakeDir(PathCls):
            def glob(self, pattern):
                # deliberately NOT in name order: the code has to sort
                return [FakeFile("/fake/" + n) for n in reversed(task.names)] + [FakeFile("/fake/readme.txt")][:0]

        for n in self.names:
            if self.kind == "dict":
                d = {}
                term = z3.Const("chunk_" + n.replace(".", "_").replace("-", "_"), A.Map)
                H.register(I, d, A.AMap.of_term(term, n), local=False)
                self.terms[id(d)] = term
                chunks[n] = d
            else:
                chunks[n] = {"__v2_document__": n} if n[:-5].endswith("v2") else [f"{n}#{i}" for i in range(2)]

        def fake_files(pkg):
            return FakeRoot()

        class FakeRoot:
            def __truediv__(self, other):
                return FakeDir("/fake")

        def merge_contract(I2, a, b):
            ta, tb = task.terms.get(id(a)), task.terms.get(id(b))
            if ta is None or tb is None:
                raise Unsupported("merge_dicts called on something that is not a loaded document / an earlier merge")
            r = {}
            t = A.MergeSpec(ta, tb)
            H.register(I2, r, A.AMap.of_term(t, "merged"), local=True)
            task.terms[id(r)] = t
            return r
        I.contracts["schwifty.registry.merge_dicts"] = merge_contract
        I.contracts["schwifty.registry.parse_v2"] = lambda I2, doc: [f"v2({doc['__v2_document__']})#{i}" for i in range(2)]
        I.contracts["schwifty.registry.save"] = lambda I2, name, data: data       # the one writer of _registry (import time)
        saved = (registry.files, models.BUILTIN_MODELS.get(json.load))
        registry.files = fake_files

        def m_load(I2, fp):
            # json.load allocates its result: a list document is a fresh list (the code may extend it in place)
            doc = chunks[fp.name]
            if isinstance(doc, list):
                doc = list(doc)
                I2.keep.append(doc)
                I2.local_ids.add(id(doc))
            return doc
        models.BUILTIN_MODELS[json.load] = m_load
        try:
            res = I.call(registry.get, ["probe"], {})
        finally:
            registry.files = saved[0]
            if saved[1] is None:
                models.BUILTIN_MODELS.pop(json.load, None)
            else:
                models.BUILTIN_MODELS[json.load] = saved[1]
        self.chunks = chunks
        return ("DATA", res)

    def custom_obligations(self, I, inp, code_paths, cobs):
        from pyvc import amap as A
        out = []
        order = sorted(self.names)
        for i, (path, o) in enumerate(cobs):
            if isinstance(o, T.Escape):
                ok = not order and isinstance(o.exc, ValueError)
                out.append((f"path {i}: raises only for an empty directory (ValueError: failed to load)", path["pc"], z3.BoolVal(ok)))
                continue
            if isinstance(o, T.ExcTag):
                out.append((f"path {i}: unexpected library error {o.name}", path["pc"], z3.BoolVal(False)))
                continue
            res = o[1]
            if self.kind == "dict":
                want = None
                for n in order:
                    t = z3.Const("chunk_" + n.replace(".", "_").replace("-", "_"), A.Map)
                    want = t if want is None else A.MergeSpec(want, t)
                got = self.terms.get(id(res))
                out.append((f"path {i}: result = left fold of Merge over the files in name order {order}", path["pc"],
                            z3.BoolVal(got is not None and want is not None and got.eq(want))))
            else:
                want = []
                for n in order:
                    want += [f"v2({n})#{j}" for j in range(2)] if n[:-5].endswith("v2") else [f"{n}#{j}" for j in range(2)]
                out.append((f"path {i}: result = concatenation in name order, v2 files expanded", path["pc"],
                            z3.BoolVal(res == want)))
        return out

    def native_agree(self, inp):
        return True, None, None

    def sample(self, rnd):
        return None


def enumerate_merge(max_depth):
    """bounded native enumeration incl. dict-versus-scalar conflicts and the frame condition"""
    from schwifty import registry
    leaves = [0, 1, "x", [1], None]
    sh = [s for s in shapes(("a", "b", "c"), 1) if isinstance(s, dict)] + \
         [s for s in shapes(("a", "b"), max_depth) if isinstance(s, dict)]
    n = 0
    distinct = set()
    for ls, rs in itertools.product(sh, sh):
        for seed in range(3):
            vals = itertools.cycle(leaves[seed:] + leaves[:seed])
            left, right = fill(ls, vals), fill(rs, vals)
            l0, r0 = copy.deepcopy(left), copy.deepcopy(right)
            got = registry.merge_dicts(left, right)
            n += 1
            distinct.add(json.dumps([ls, rs], sort_keys=True, default=str))
            if got != Merge(l0, r0) or left != l0 or right != r0:
                return n, len(distinct), dict(left=l0, right=r0, got=got, expected=Merge(l0, r0),
                                              arguments_mutated=(left != l0 or right != r0))
    return n, len(distinct), None


def enumerate_v2():
    from schwifty import registry
    n = 0
    for n_entries in range(0, 4):
        for n_vals in range(0, 4):
            for with_primary in (False, True):
                doc = {"expand_from": "bank_codes", "expand_into": "bank_code",
                       "entries": [dict({"name": f"n{i}", "bic": f"B{i}", "bank_codes": [f"{i}{j}" for j in range(n_vals)]},
                                        **({"primary": True} if with_primary and i == 0 else {}))
                                   for i in range(n_entries)]}
                want = expand_v2(copy.deepcopy(doc))
                got = registry.parse_v2(copy.deepcopy(doc))
                n += 1
                if got != want:
                    return n, dict(doc=doc, got=got, expected=want)
    return n, None


def native_fold_sweep(tier):
    """BOUNDED native sweep of the real registry.get over scratch directories: every assignment of one value out of
    {absent, scalar, list, three dicts} to the same key - at top level and one level down - in 3 (quick) / 3 and 4
    (thorough) files whose names sort differently by name and by stem, and 2-3 list files (one of them v2), against
    the independent name-ordered left fold.  Catches a composition that is not a LEFT fold (n-way merge: scalar ->
    dict -> dict loses the middle file) whatever shape the code has - the contracts of merge_dicts / get need not
    apply to it (round 6, C18)."""
    from pathlib import Path
    from schwifty import registry
    choices = [None, 7, [1], {"x": 1}, {"y": 2}, {"x": 3, "z": {"q": 1}}]
    names = ["generated.json", "overwrite-local.json", "overwrite.json", "zz_user.json"]
    n = 0
    saved_files = registry.files
    d = tempfile.mkdtemp(prefix="c18fold")
    probe = os.path.join(d, "probe_registry")
    try:
        registry.files = lambda pkg: Path(d)
        for k in ([3, 4] if tier == "thorough" else [3]):
            for vals in itertools.product(choices, repeat=k):
                shutil.rmtree(probe, ignore_errors=True)
                os.makedirs(probe)
                for name, v in zip(names[:k], vals):
                    doc = {"keep_" + name[:2]: name, "n": {"other": name}}
                    if v is not None:
                        doc["K"] = copy.deepcopy(v)
                        doc["n"]["K"] = copy.deepcopy(v)
                    json.dump(doc, open(os.path.join(probe, name), "w"))
                want = fold_registry(probe)
                registry._registry.pop("probe", None)
                try:
                    got = registry.get("probe")
                except Exception as ex:  # noqa: BLE001
                    got = f"raised {type(ex).__name__}: {ex}"
                n += 1
                if got != want:
                    return n, dict(files=dict(zip(names[:k], [repr(v) for v in vals])), got=repr(got)[:300],
                                   expected=repr(want)[:300])
        v2 = {"expand_from": "bank_codes", "expand_into": "bank_code",
              "entries": [{"name": "Z", "bic": "", "bank_codes": ["1", "2"]}, {"name": "Y", "bic": "B", "bank_codes": []}]}
        for files_ in ([("b.json", [{"a": 1}]), ("a.json", [{"a": 2}, {"a": 3}])],
                       [("manual_x.json", [{"a": 1}]), ("manual_x-local.json", []), ("zz.v2.json", v2)],
                       [("a.v2.json", v2), ("b.json", [{"a": 1}]), ("c.v2.json", v2)]):
            shutil.rmtree(probe, ignore_errors=True)
            os.makedirs(probe)
            for name, doc in files_:
                json.dump(doc, open(os.path.join(probe, name), "w"))
            want = fold_registry(probe)
            registry._registry.pop("probe", None)
            try:
                got = registry.get("probe")
            except Exception as ex:  # noqa: BLE001
                got = f"raised {type(ex).__name__}: {ex}"
            n += 1
            if got != want:
                return n, dict(files=[f for f, _ in files_], got=repr(got)[:300], expected=repr(want)[:300])
        return n, None
    finally:
        registry.files = saved_files
        registry._registry.pop("probe", None)
        shutil.rmtree(d, ignore_errors=True)


def strip_regex(table):
    return {cc: {k: v for k, v in s.items() if k != "regex"} for cc, s in table.items()}


def bundled_files_check():
    """registry.get == independent fold of the files of THIS tree (exhaustive for the bundled data)"""
    import schwifty
    from schwifty import registry
    pkg = os.path.dirname(schwifty.__file__)
    bad = []
    want_iban = fold_registry(os.path.join(pkg, "iban_registry"))
    if strip_regex(registry.get("iban")) != want_iban:
        diff = [cc for cc in set(want_iban) | set(registry.get("iban")) if strip_regex(registry.get("iban")).get(cc) != want_iban.get(cc)]
        bad.append(("iban", diff[:5]))
    want_bank = fold_registry(os.path.join(pkg, "bank_registry"))
    if registry.get("bank") != want_bank:
        bad.append(("bank", f"{len(registry.get('bank'))} entries vs {len(want_bank)} expected"))
    return bad, len(want_iban), len(want_bank)


OVERLAY_SCRIPT = r'''
import json, sys
sys.path.insert(0, sys.argv[1])
import schwifty
from schwifty import registry, IBAN
t = registry.get("iban")
out = dict(file=schwifty.__file__,
           iban={cc: {k: v for k, v in s.items() if k != "regex"} for cc, s in t.items()},
           bank=registry.get("bank"))
try:
    out["xx_iban"] = str(IBAN.generate("XX", bank_code="12", account_code="3456"))
    out["xx_valid"] = IBAN(out["xx_iban"]).bank_code
except Exception as ex:
    out["xx_iban"] = repr(ex)
print(json.dumps(out))
'''


def overlay_check():
    """user overlay files: the effective data of a scratch copy of the package must equal the independent
    name-ordered fold of its files (bounded: one overlay scenario with order-sensitive file names)"""
    import schwifty
    pkg = os.path.dirname(schwifty.__file__)
    d = tempfile.mkdtemp(prefix="c18pkg")
    try:
        shutil.copytree(pkg, os.path.join(d, "schwifty"), ignore=shutil.ignore_patterns("__pycache__"))
        ib = os.path.join(d, "schwifty", "iban_registry")
        bk = os.path.join(d, "schwifty", "bank_registry")
        overlay = {"XX": {"bban_spec": "2!n4!n", "iban_spec": "XX2!n2!n4!n", "bban_length": 6, "iban_length": 10,
                          "positions": {"bank_code": [0, 2], "account_code": [2, 6]}},
                   "NO": {"positions": {"branch_code": [0, 0]}}, "DE": {"in_sepa_zone": False}}
        json.dump(overlay, open(os.path.join(ib, "zz_user.json"), "w"))
        # sorts BEFORE overwrite.json by file name ('-' < '.') but after it by stem: the later file must win
        # AD.positions goes dict (generated) -> scalar (this file) -> dict (zz_user): only a LEFT fold replaces it wholesale
        json.dump({"NO": {"positions": {"account_code": [4, 9]}}, "IS": {"in_sepa_zone": False}, "AD": {"positions": "n/a"}},
                  open(os.path.join(ib, "overwrite-local.json"), "w"))
        overlay["AD"] = {"positions": {"bank_code": [0, 4], "account_code": [8, 20]}}
        json.dump(overlay, open(os.path.join(ib, "zz_user.json"), "w"))
        v2 = {"expand_from": "bank_codes", "expand_into": "bank_code",
              "entries": [{"name": "Z", "short_name": "Z", "bic": "", "country_code": "ZZ", "bank_codes": ["1", "2"]}]}
        json.dump(v2, open(os.path.join(bk, "zz_user.v2.json"), "w"))
        json.dump([{"name": "L", "short_name": "L", "bic": "", "country_code": "LU", "bank_code": "001", "primary": False}],
                  open(os.path.join(bk, "manual_lu-local.json"), "w"))
        want_iban = fold_registry(ib)
        want_bank = fold_registry(bk)
        r = subprocess.run([sys.executable, "-c", OVERLAY_SCRIPT, d], capture_output=True, text=True, timeout=120,
                           env=dict(os.environ, PYTHONPATH=d))
        if r.returncode != 0:
            return [f"scratch import failed: {r.stderr[-300:]}"], 0
        out = json.loads(r.stdout.strip().splitlines()[-1])
        bad = []
        if not out["file"].startswith(d):
            return [f"scratch copy not imported ({out['file']})"], 0
        if out["iban"] != want_iban:
            diff = [cc for cc in set(want_iban) | set(out["iban"]) if out["iban"].get(cc) != want_iban.get(cc)]
            bad.append(f"effective country table differs from the name-ordered deep merge of the files at {diff[:5]}: "
                       f"{[(cc, out['iban'].get(cc, {}).get('positions'), want_iban.get(cc, {}).get('positions')) for cc in diff[:2]]}")
        if out["bank"] != want_bank:
            bad.append(f"effective bank list ({len(out['bank'])} entries) differs from the name-ordered concatenation "
                       f"({len(want_bank)} entries) with v2 expansion")
        if not out["xx_iban"].startswith("XX") or out.get("xx_valid") != "12":
            bad.append(f"generation/validation do not follow the effective data: {out['xx_iban']}")
        return bad, 4
    finally:
        shutil.rmtree(d, ignore_errors=True)


def main(seed, tier):
    from props import common
    t0 = time.time()
    folds = [("dict", ""), ("dict", "a.json"), ("dict", "b.json,a.json"), ("dict", "generated.json,overwrite.json,zz.json"),
             ("dict", "overwrite.json,overwrite-local.json,generated.json,zz_user.json"),
             ("list", ""), ("list", "manual_x.json"), ("list", "generated_b.json,generated_a.json,manual_dk.v2.json"),
             ("list", "manual_lu.json,manual_lu-local.json,generated_at.json,zz.v2.json")]
    results = common.run_tasks([("props.c18", "MergeContractTask", ())] +
                               [("props.c18", "GetFoldTask", f) for f in folds] +
                               [("props.c18", "ParseV2Task", a) for a in (("bank_codes", "bank_code"), ("bics", "bic"))] +
                               [("props.c18", "MergeShapeTask", (i,)) for i in range(16)], seed, tier)
    obls = []
    n_merge, distinct, wit = enumerate_merge(3 if tier == "thorough" else 2)
    obls.append(dict(name=f"merge_dicts == Merge and leaves its arguments unchanged on {n_merge} enumerated pairs",
                     status="discharged" if wit is None else "refuted", backend="cpython (bounded enumeration)",
                     secs=0.0, witness=wit, detail="" if wit is None else f"replayed natively: {wit}", kind="bounded"))
    n_v2, wit2 = enumerate_v2()
    obls.append(dict(name=f"parse_v2 == expansion spec on {n_v2} enumerated documents",
                     status="discharged" if wit2 is None else "refuted", backend="cpython (bounded enumeration)",
                     secs=0.0, witness=wit2, detail="" if wit2 is None else f"replayed natively: {wit2}", kind="bounded"))
    n_fs, wit3 = native_fold_sweep(tier)
    obls.append(dict(name=f"registry.get == name-ordered left fold on {n_fs} scratch directories (every value kind per file "
                          "for one key, top level and nested; list and v2 files)",
                     status="discharged" if wit3 is None else "refuted", backend="cpython (bounded enumeration)",
                     secs=0.0, witness=wit3, detail="" if wit3 is None else f"replayed natively: {wit3}", kind="bounded"))
    bad, n_cc, n_bank = bundled_files_check()
    obls.append(dict(name=f"registry.get == name-ordered fold of the bundled files ({n_cc} countries, {n_bank} bank entries)",
                     status="discharged" if not bad else "refuted", backend="cpython (exhaustive on bundled files)",
                     secs=0.0, witness={"difference": repr(bad)} if bad else None,
                     detail="" if not bad else f"replayed natively: {bad}", kind="vc"))
    obad, n_ov = overlay_check()
    obls.append(dict(name="overlay files in a scratch copy of the package change exactly the keys they name",
                     status="discharged" if not obad else "refuted", backend="cpython (scratch package)",
                     secs=0.0, witness={"problems": obad} if obad else None,
                     detail="" if not obad else f"replayed natively: {obad}", kind="bounded"))
    results.append(dict(task="registry composition (bounded / bundled files)", obligations=obls, functions={}, files={},
                        paths=0, error=None, spec=None))
    return common.finish(
        "C18", results, t0, seed, tier, level="proof",
        assumptions=["merge_dicts: proved for abstract dictionaries of any size (pointwise generic-key execution of the "
                     "two loops, recursion through the contract = induction on the nesting depth of finite JSON trees; "
                     "values are abstract: only 'is a dict' and truthiness are observable); the frozenset intersection "
                     "order is irrelevant because the loop body touches the result only at the loop key",
                     "BOUNDED parts (not counted as proved): parse_v2 on enumerated documents; merge_dicts again on "
                     "enumerated small dictionaries and with symbolic leaves (cross-checks of the abstract proof); the "
                     "overlay scenario in a scratch copy of the package",
                     "registry.get: real body executed on directories of 0..4 files whose contents are abstract "
                     "(dictionaries: uninterpreted Map terms, merged through the proved contract of merge_dicts; lists: "
                     "opaque), glob modelled as returning the files in reverse order, json.load as returning the "
                     "document, sorted() natively on pathlib paths; result proved to be the left fold in name order "
                     "(unbounded in the contents; in the NUMBER of files the runs cover 0..4, and the two-file run with an "
                     "arbitrary first content is the induction step of the left fold for any number - the loop body reads "
                     "only data, entry and chunk - leaving the order of k > 4 paths to the assumed contract of sorted()); "
                     "additionally compared with an "
                     "independent name-ordered fold on the bundled files (exhaustive for this tree) and on one overlay "
                     "scenario with order-sensitive file names; json and the file system are assumed",
                     "registry.save (the one writer of registry._registry, reached only at import / first load) is "
                     "replaced by its contract 'returns data' in the fold task"],
        extra_cov=dict(evaluations=n_merge + n_v2 + n_ov + 1, distinct_nontrivial=distinct,
                       rule="all pairs of nested dict shapes over keys {a,b,c} depth 1 and {a,b} depth <= 2/3, three "
                            "leaf assignments each (scalars, lists, None, dict-vs-scalar conflicts arise from the shapes); "
                            "distinct = distinct shape pairs; plus pyvc runs of the real body on all depth-2 shape pairs "
                            "with symbolic leaves, v2 documents 0..3 entries x 0..3 codes, the bundled files, one overlay",
                       exhaustive=False),
        not_proved_note="merge_dicts proved unboundedly against its contract; parse_v2 / get bounded or exhaustive on the "
                        "bundled files: see assumptions")
