"""C07 - German account numbers are judged by the Bundesbank method of their bank."""
from __future__ import annotations

import time

import z3

from contracts import germany as G
from pyvc import task as T
from pyvc.values import SInt, SStr, concretize


def digit_sum_contract(I, number):
    """contract of schwifty.checksum.germany.digit_sum: requires 0 <= n < 100, ensures result = n//10 + n%10
    (verified against the real body by DigitSumTask)"""
    number = concretize(number) if isinstance(number, SInt) else number
    if isinstance(number, SInt):
        I.oblige("digit_sum.requires(0 <= number < 100)", z3.And(number.t >= 0, number.t < 100))
        return SInt(number.t / 10 + number.t % 10)
    return sum(int(d) for d in str(number))


class DigitSumTask(T.Task):
    name = "germany.digit_sum"

    def setup(self, I):
        n = z3.Int("n")
        I.assumptions += [n >= 0, n < 100]
        return {"n": SInt(n)}

    def code(self, I, inp):
        from schwifty.checksum import germany
        return I.call(germany.digit_sum, [inp["n"]], {})

    def spec(self, I, inp):
        return I.call(G.digit_sum_spec, [inp["n"]], {})

    def native_code(self, inp):
        from schwifty.checksum import germany
        return T.native_obs(germany.digit_sum, inp["n"])

    def native_spec(self, inp):
        return G.digit_sum_spec(inp["n"])

    def sample(self, rnd):
        return {"n": rnd.randrange(100)}


class MethodTask(T.Task):
    """algorithms['DE:<m>'].validate([a], '') for ten symbolic digits, scratch fields havocked"""
    contracts = {"schwifty.checksum.germany.digit_sum": digit_sum_contract}

    def __init__(self, m):
        self.m = m
        self.name = f"DE:{m}.validate"
        self.meta = {"method": m, "band": m in G.BAND}
        if m in G.BAND:
            lo, up = G.BAND[m]
            self.lower = lambda I, inp: I.call(lo, [inp["a"]], {})
            self.upper = lambda I, inp: I.call(up, [inp["a"]], {})

    def setup(self, I):
        d = [z3.Int(f"a{i}") for i in range(10)]
        I.assumptions += [z3.And(x >= 48, x <= 57) for x in d]
        for x in d:
            I.domains[x.decl().name()] = list(range(48, 58))
        return {"a": SStr(d)}

    def algo(self):
        from schwifty.checksum import algorithms
        return algorithms["DE:" + self.m]

    def code(self, I, inp):
        return I.call(I.getattr(self.algo(), "validate"), [[inp["a"]], ""], {})

    def observe(self, I, path):
        # verdict: True / False; the BBAN layer turns a False and an InvalidBBANChecksum into the same rejection
        o = T.std_observe(path)
        if isinstance(o, T.ExcTag) and o.name == "InvalidBBANChecksum":
            return False
        return o

    def spec(self, I, inp):
        return I.call(G.EXACT[self.m], [inp["a"]], {})

    def extra_obligations(self, I, inp, code_paths):
        """band methods: the verdict function implemented today is pinned (kind 'pin': a refutation means the code moved
        inside the band -> undecided)"""
        if self.m not in G.PIN:
            return []
        out = []
        for i, p in enumerate(code_paths):
            o = self.observe(I, p)
            if isinstance(o, T.Escape):
                continue
            want, _ = T.spec_formula(I, G.PIN[self.m], [inp["a"]], ctx=p["pc"])
            out.append((f"path {i}: inside the band the verdict is the reading pinned at build time", p["pc"],
                        T.as_formula(T.obs_eq(I, o, True)) == want, "pin"))
        return out

    def native_code(self, inp):
        o = T.native_obs(self.algo().validate, [inp["a"]], "")
        if isinstance(o, T.ExcTag) and o.name == "InvalidBBANChecksum":
            return False
        return o

    def native_spec(self, inp):
        return G.EXACT[self.m](inp["a"])

    def native_band(self, inp):
        if self.m in G.BAND:
            lo, up = G.BAND[self.m]
            return lo(inp["a"]), up(inp["a"])
        return None

    def sample(self, rnd):
        r = rnd.random()
        if r < 0.6:
            return {"a": f"{rnd.randrange(10 ** 10):010d}"}
        if r < 0.8:
            return {"a": f"{rnd.randrange(10 ** 6):010d}"}
        return {"a": f"{rnd.randrange(3 * 10 ** 8, 6 * 10 ** 8):010d}"}


class DispatchTask(T.Task):
    """BBAN('DE', b).validate_national_checksum() for a bank whose registry entry carries checksum_algo = m (or no
    such key / no entry at all): uses DE:<m> on the account number if the library implements it, else accepts"""

    def __init__(self, m):
        from contracts import common as CC
        self.m = m              # a method id, "<MISSING>" (entry without the key) or "<NONE>" (unlisted bank)
        self.name = f"DE dispatch: checksum_algo={m}"
        self.meta = {"method": m}
        variant = None if m == "<NONE>" else m
        self.contracts = {"schwifty.checksum.germany.digit_sum": digit_sum_contract,
                          "schwifty.common.clean": CC.clean_contract,
                          "schwifty.bban.BBAN.bank": CC.make_bank_contract(only=[variant])}
        if m in G.BAND:
            lo, up = G.BAND[m]
            self.lower = lambda I, inp: I.call(lo, [SStr(inp["b"].chars[8:18])], {})
            self.upper = lambda I, inp: I.call(up, [SStr(inp["b"].chars[8:18])], {})

    def setup(self, I):
        from contracts import common as CC
        b, self.cl = CC.sym_bban(I, "DE")
        return {"b": b}

    def code(self, I, inp):
        from schwifty import BBAN
        obj = I.call(BBAN, ["DE", inp["b"]], {})
        return I.call(I.getattr(obj, "validate_national_checksum"), [], {})

    def observe(self, I, path):
        o = T.std_observe(path)
        if isinstance(o, T.ExcTag) and o.name == "InvalidBBANChecksum":
            return False
        return o

    def spec(self, I, inp):
        if self.m in G.EXACT:
            return I.call(G.EXACT[self.m], [SStr(inp["b"].chars[8:18])], {})
        return True         # unlisted bank, entry without method, or a method the library does not implement

    def native_code(self, inp):
        from unittest import mock
        from schwifty import BBAN
        entry = None if self.m == "<NONE>" else ({"bank_code": inp["b"][:8]} if self.m == "<MISSING>" else
                                                 {"bank_code": inp["b"][:8], "checksum_algo": self.m})
        with mock.patch.object(BBAN, "bank", new_callable=mock.PropertyMock, return_value=entry):
            o = T.native_obs(lambda: BBAN("DE", inp["b"]).validate_national_checksum())
        if isinstance(o, T.ExcTag) and o.name == "InvalidBBANChecksum":
            return False
        return o

    def native_spec(self, inp):
        return bool(G.EXACT[self.m](inp["b"][8:])) if self.m in G.EXACT else True

    def native_band(self, inp):
        if self.m in G.BAND:
            lo, up = G.BAND[self.m]
            return lo(inp["b"][8:]), up(inp["b"][8:])
        return None

    def sample(self, rnd):
        return {"b": "".join(rnd.choice("0123456789") for _ in range(18))}


def methods():
    from schwifty.checksum import algorithms
    return sorted(k[3:] for k in algorithms if k.startswith("DE:"))


def method_conflicts():
    """German bank codes the bundled registry lists with MORE than one check-digit method"""
    from schwifty import registry
    seen = {}
    for e in registry.get("bank"):
        if e.get("country_code") == "DE" and e.get("bank_code"):
            seen.setdefault(e["bank_code"], []).append(e.get("checksum_algo"))
    return {k: v for k, v in seen.items() if len(set(v)) > 1}


def conflict_witness(code, listed):
    """an account number on which two of the listed methods disagree, and what the library then does"""
    import random
    from schwifty import IBAN
    from schwifty.checksum import algorithms
    from contracts.common import Num
    rnd = random.Random(7)
    ms = [m for m in dict.fromkeys(listed) if m and "DE:" + m in algorithms]
    for _ in range(5000):
        a = f"{rnd.randrange(10 ** 10):010d}"
        verdicts = {}
        for m in ms:
            o = T.native_obs(algorithms["DE:" + m].validate, [a], "")
            verdicts[m] = o is True
        if len(set(verdicts.values())) > 1:
            b = code + a
            text = f"DE{98 - (Num(b + 'DE') * 100) % 97:02d}{b}"
            lib = T.native_obs(lambda: IBAN(text, validate_bban=True))
            return dict(bank_code=code, listed_methods=listed, account=a, verdict_per_listed_method=verdicts, iban=text,
                        library="accepted" if not isinstance(lib, (T.ExcTag, T.Escape)) else repr(lib))
    return dict(bank_code=code, listed_methods=listed)


def method_data_check():
    """the property speaks of THE method a bank code is listed with: the registry must list one per bank code"""
    bad = method_conflicts()
    wit = None
    if bad:
        code = sorted(bad)[0]
        wit = conflict_witness(code, bad[code])
    ob = dict(name="every German bank code of the registry is listed with one check-digit method (all its entries agree)",
              kind="vc", status="discharged" if not bad else "refuted", backend="evaluation on the bundled registry",
              secs=0.0, witness=wit,
              detail="" if not bad else f"replayed natively: {len(bad)} bank code(s) listed with several methods, e.g. {wit}")
    return dict(task="DE registry: method per bank code", obligations=[ob], functions={}, files={}, paths=0, error=None,
                spec=["props.c07", "MethodDataReplay", []])


class MethodDataReplay:
    def native_agree(self, wit):
        bad = method_conflicts()
        code = wit.get("bank_code")
        return code not in bad, bad.get(code), "one method per bank code"


def main(seed, tier):
    from props import common
    t0 = time.time()
    ms = methods()
    unspecified = [m for m in ms if m not in G.EXACT and m not in G.BAND]
    specs = [("props.c07", "DigitSumTask", ())] + [("props.c07", "MethodTask", (m,)) for m in ms
                                                   if m not in unspecified]
    from contracts import common as CC
    ids = [v for v in CC.bank_variants("DE")] + ["<NONE>"]
    specs += [("props.c07", "DispatchTask", (m,)) for m in ids if m not in unspecified]
    from props import c02
    specs += [x for x in c02.from_bban_flag_specs(["DE"]) if x[2][1] == 18]      # the flag reaches the German methods too
    results = common.run_tasks(specs, seed, tier)
    results.append(method_data_check())
    if unspecified:
        results.append(dict(task="DE methods", obligations=[], error=f"unsupported: no sidecar spec for registered "
                            f"method(s) {unspecified}", functions={}, files={}, paths=0))
    return common.finish(
        "C07", results, t0, seed, tier,
        extra_cov=dict(methods=ms, sandwich_bands=sorted(G.BAND)),
        assumptions=[
            "A10 the published Bundesbank rules are as transcribed in contracts/germany.py (from the method "
            "descriptions; sandwich bands 13/63/76 where a clause could not be re-read offline: proved "
            "lower ⊆ code ⊆ upper, the band between is unspecified; the verdict function implemented inside each band "
            "is additionally pinned - 13 and 63: the main rule without retry, 76: remainder 10 accepted with check "
            "digit 0 - so that a tree whose verdict moves inside a band is reported UNDECIDED (exit 2), not passed)",
            "int(str) on ASCII digit strings, str(int) on 0..99, sum/zip/itertools.cycle/reversed as modelled",
        ],
        not_proved_note="per method: validate([a], '') == Bundesbank spec for all ten-digit a and arbitrary initial "
                        "values of the shared scratch fields (remainder, weighted_sum)")
