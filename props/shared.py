"""Tasks that verify the contracts of shared helpers against their real bodies (used by several properties)."""
from __future__ import annotations

import z3

from contracts import common as CC
from pyvc import task as T
from pyvc.values import SStr


class NumerifyTask(T.Task):
    """checksum.numerify(value) == Num(value) >= 0 for every value of length n over [0-9A-Z]; raises nothing"""

    def __init__(self, n):
        self.n = int(n)
        self.name = f"checksum.numerify[len={n}]"

    def setup(self, I):
        d = [z3.Int(f"v{i}") for i in range(self.n)]
        for x in d:
            I.assumptions.append(CC.z_alnum(x))
            I.domains[x.decl().name()] = CC.DOMAIN["c"]
        return {"value": SStr(d)}

    def code(self, I, inp):
        from schwifty import checksum
        return I.call(checksum.numerify, [inp["value"]], {})

    def spec(self, I, inp):
        return I.call(CC.Num, [inp["value"]], {})

    def extra_obligations(self, I, inp, code_paths):
        out = []
        for i, p in enumerate(code_paths):
            if p["kind"] == "return":
                from pyvc.values import lift_int
                out.append((f"path {i}: result >= 0", p["pc"], lift_int(p["value"]) >= 0))
        return out

    def native_code(self, inp):
        from schwifty import checksum
        return T.native_obs(checksum.numerify, inp["value"])

    def native_spec(self, inp):
        return CC.Num(inp["value"])

    def sample(self, rnd):
        return {"value": "".join(rnd.choice("0123456789ABCDEFGHIJKLMNOPQRSTUVWXYZ") for _ in range(self.n))}


def numerify_lengths():
    """the lengths with which numerify is reached from validation / generation: BBAN + 2 (compute) and BBAN + 4
    (numeric) for every country, plus the national ISO 7064 bodies"""
    from schwifty import registry
    out = set()
    for cc, s in registry.get("iban").items():
        out.add(s["bban_length"] + 2)
        out.add(s["bban_length"] + 4)
    out |= {10, 13, 14, 16, 17, 18, 19, 21}
    return sorted(out)
