"""C03 - every single typing error in a valid IBAN is detected.

Argument (DESIGN C03): (1) z3 link, per country, from the real code: accepted => every character in [A-Z0-9],
length <= 34 and Num(bban + cc + dd) mod 97 = 1  [obligations of the IBAN construct tasks];
(2) Lean 4 / Mathlib, for all lengths: a same-kind substitution or adjacent transposition in a list whose Num
leaves remainder 1 gives a list whose Num does not [lemmas/C03.lean: iban_subst, iban_swap_adjacent,
iban_swap_seam]; hence the mutated text is not accepted (contrapositive of (1) applied to the mutated text).
(3) bounded confirmation on the real code: sampled valid IBANs x all single mutations are rejected natively."""
from __future__ import annotations

import os
import random
import re
import shutil
import subprocess
import tempfile
import time

ROOT = os.path.dirname(os.path.dirname(os.path.abspath(__file__)))
LEAN_FILE = os.path.join(ROOT, "lemmas", "C03.lean")
MATHLIB = "/opt/veriftools/mathlib4"
THEOREMS = ["num_append", "num_subst", "pw_coprime", "detect_subst", "num_swap", "detect_adjacent_swap",
            "ten_pow_sub_one", "pw_is_pow", "detect_wrap_swap", "iban_subst", "iban_swap_adjacent", "iban_swap_seam",
            "rearr_bban", "rearr_head1", "rearr_head2", "iban_subst_at", "iban_swap_at", "iban_swap_at_seam"]
ALLOWED_AXIOMS = {"propext", "Classical.choice", "Quot.sound"}


def lean_ch(ch):
    from contracts.common import idx
    i = idx(ch)
    return f"⟨{i}, {10 if i < 10 else 100}⟩"


def run_lean(seed):
    """compile lemmas/C03.lean + generated agreement examples; returns (ok, obligations, detail, secs)"""
    from contracts.common import Num
    from props import leanrun
    rnd = random.Random(seed)
    examples = []
    for _ in range(12):
        s = "".join(rnd.choice("0123456789ABCDEFGHIJKLMNOPQRSTUVWXYZ") for _ in range(rnd.randrange(1, 14)))
        examples.append(f"example : num [{', '.join(lean_ch(c) for c in s)}] = {Num(s)} := by decide")
    extra = "-- generated: the Python spec function Num and the Lean `num` agree on sampled vectors\n" + "\n".join(examples)
    ok, obls, text, secs = leanrun.run(LEAN_FILE, THEOREMS, extra)
    if ok is not None:
        obls.append(dict(name=f"lean: Python Num and Lean num agree on {len(examples)} generated vectors (by decide)",
                         status="discharged" if ok else "undecided", backend="lean4+mathlib", secs=0.0,
                         witness=None, detail="" if ok else text[-300:], kind="vc"))
    return ok, obls, text, secs


def mutations(s):
    """all single same-kind substitutions at positions >= 2 and adjacent same-kind transpositions of different chars"""
    digits, letters = "0123456789", "ABCDEFGHIJKLMNOPQRSTUVWXYZ"
    for i in range(2, len(s)):
        kind = digits if s[i] in digits else letters
        for y in kind:
            if y != s[i]:
                yield ("subst", i, s[:i] + y + s[i + 1:])
    for i in range(len(s) - 1):
        a, b = s[i], s[i + 1]
        if a != b and ((a in digits) == (b in digits)):
            yield ("swap", i, s[:i] + b + a + s[i + 2:])


def bounded_native(seed, per_country):
    """bounded confirmation on the real code (NOT counted as proved)"""
    from contracts.common import Num
    from props.ibantasks import table
    from contracts.common import classes
    from schwifty import IBAN
    from schwifty.exceptions import SchwiftyException
    rnd = random.Random(seed)
    n = 0
    for cc, spec in sorted(table().items()):
        cl = classes(spec["bban_spec"])
        # random texts, plus the two extreme shapes: letters wherever the structure allows them (the longest numeric
        # form: two digits per letter) and digits wherever it allows them (the shortest)
        shapes = ["random"] * per_country + ["letters", "digits"]
        for shape in shapes:
            alpha = {"random": {"n": "0123456789", "a": "ABCDEFGHIJKLMNOPQRSTUVWXYZ", "c": "0123456789ABCDEFGHIJKLMNOPQRSTUVWXYZ"},
                     "letters": {"n": "0123456789", "a": "ABCDEFGHIJKLMNOPQRSTUVWXYZ", "c": "KLMNOPQRSTUVWXYZ"},
                     "digits": {"n": "0123456789", "a": "ABCDEFGHIJKLMNOPQRSTUVWXYZ", "c": "0123456789"}}[shape]
            b = "".join(rnd.choice(alpha[k]) for k in cl)
            s = f"{cc}{98 - (Num(b + cc) * 100) % 97:02d}{b}"
            try:
                IBAN(s)
            except SchwiftyException:
                return n, dict(iban=s, kind="valid IBAN rejected", mutated=s)
            for kind, i, m in mutations(s):
                n += 1
                try:
                    IBAN(m)
                except SchwiftyException:
                    continue
                except Exception as ex:  # noqa: BLE001
                    return n, dict(iban=s, kind=f"{kind}@{i} raised {type(ex).__name__}", mutated=m)
                return n, dict(iban=s, kind=f"{kind}@{i} accepted", mutated=m)
    return n, None


class MutationReplay:
    """native replay of a recorded C03 witness"""

    def native_agree(self, wit):
        from schwifty import IBAN
        from schwifty.exceptions import SchwiftyException
        try:
            IBAN(wit["mutated"])
        except SchwiftyException as ex:
            return True, f"rejected ({type(ex).__name__})", "rejected"
        except Exception as ex:  # noqa: BLE001
            return False, f"raised {type(ex).__name__}", "rejected"
        return False, "accepted", "rejected"


def main(seed, tier):
    from props import c01, common
    t0 = time.time()
    specs = [s for s in c01.specs("construct") if s[1] == "IbanTask"]
    # the cheap bounded sweep runs FIRST: when it already holds a natively replayed violation, the symbolic tasks get a
    # short budget (round 6, C03-r6m1: a tree on which every country task runs into the default budget of 420 s took
    # more than 40 minutes to get to the sweep that refutes it in seconds); on a tree without such a witness nothing changes
    n, wit = bounded_native(seed, 6 if tier == "thorough" else 1)
    if wit is not None:
        from pyvc import task as _T
        _T.TASK_BUDGET_S = min(_T.TASK_BUDGET_S, 40)
    results = common.run_tasks(specs, seed, tier)
    ok, lean_obls, detail, secs = run_lean(seed)
    lean_res = dict(task="lean lemmas C03", obligations=lean_obls, functions={}, files={}, paths=0,
                    error=None if ok is not None else f"checker fault: {detail}", spec=None)
    results.append(lean_res)
    if wit is not None:
        results.append(dict(task="bounded native mutation sweep", functions={}, files={}, paths=0, error=None,
                            spec=["props.c03", "MutationReplay", []],
                            obligations=[dict(name="single typing error accepted by the real code (bounded sweep)",
                                              status="refuted", backend="cpython", secs=0.0, witness=wit,
                                              detail=f"replayed natively: {wit['kind']}: IBAN({wit['mutated']!r}) "
                                                     f"derived from valid {wit['iban']!r}", kind="bounded")]))
    return common.finish(
        "C03", results, t0, seed, tier,
        assumptions=c01.ASSUMPTIONS + [
            "A9 the Python spec function Num (contracts/common.py) and the Lean definition `num` denote the same "
            "function: both three-line folds; cross-evaluated on generated vectors inside the Lean run",
            "the position-level theorems iban_subst_at / iban_swap_at / iban_swap_at_seam are stated over the IBAN text "
            "itself with rearr l = l.drop 4 ++ l.take 4 (machine-checked position map); that the code checks exactly "
            "num(rearr text) is the link obligation 'accepted => Num(bban + cc + dd) mod 97 = 1' taken from the real code",
            "Lean 4.33 kernel + Mathlib; axioms allowed: propext, Classical.choice, Quot.sound (checked by #print axioms)"],
        extra_cov=dict(lean_seconds=round(secs, 1), lean_theorems=THEOREMS,
                       by_backend_lean=len([o for o in lean_obls if o["status"] == "discharged"]),
                       bounded_parts=[dict(what="native sweep: valid IBANs per country x all single same-kind "
                                                "substitutions (pos >= 2) and adjacent same-kind transpositions, "
                                                "each must be rejected by the real IBAN(...)", mutations=n)]),
        not_proved_note="link obligations per country from the real code (z3) + number-theory lemmas for all lengths "
                        "(Lean); bounded native sweep as confirmation")
