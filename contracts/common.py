"""Shared specification vocabulary (DESIGN.md section 3) and the contracts of the small shared helpers:
common.clean, checksum.numerify, BBAN.bank (abstract registry entry)."""
from __future__ import annotations

import re

import z3

from pyvc import rx
from pyvc.spec import band, digit, is_digit, is_upper, ite, spec
from pyvc.values import (Raised, SBool, SDecStr, SFn, SInt, SObj, SStr, Unsupported, concretize, is_sym, lift_str,
                         payload)

# ------------------------------------------------------------------------------------------ characters
Fix = z3.Function("Fix", z3.IntSort(), z3.BoolSort())
"""Fix(c): c can occur in a Base payload, i.e. c is not matched by \\s and chr(c).upper() == chr(c).
Uninterpreted; the facts used about it are instantiated per character term (fix_facts) and are themselves
checked by exhaustive enumeration of all 1,114,112 code points (contracts.unicode_facts, C10)."""


def ws(c):
    return rx.in_ranges(c, rx.uni_space())


def lower_ascii(c):
    return z3.And(c >= 97, c <= 122)


def ascii_clean(c):
    """printable ASCII other than blank and a-z: not whitespace and fixed under upper() (unicode_facts F4)"""
    return z3.Or(z3.And(c >= 33, c <= 96), z3.And(c >= 123, c <= 126))


def fix_facts(c):
    """consequences of Fix(c) made available to the solver"""
    return z3.Implies(Fix(c), z3.And(c >= 0, c <= 0x10FFFF, z3.Not(ws(c)), z3.Not(lower_ascii(c))))


def z_digit(c):
    return z3.And(c >= 48, c <= 57)


def z_upper(c):
    return z3.And(c >= 65, c <= 90)


def z_alnum(c):
    return z3.Or(z_digit(c), z_upper(c))


CLS = {"n": z_digit, "a": z_upper, "c": z_alnum}
DOMAIN = {"n": list(range(48, 58)), "a": list(range(65, 91)), "c": list(range(48, 58)) + list(range(65, 91))}


def classes(bban_spec: str):
    """the sidecar's own reading of a BBAN structure string (deliberately NOT convert_bban_spec_to_regex)"""
    out = []
    pos = 0
    for m in re.finditer(r"(\d+)(!?)([nace])", bban_spec):
        if m.start() != pos or not m.group(2):
            raise Unsupported(f"structure {bban_spec!r}: only fixed-width n/a/c/e elements are specified by the sidecar")
        pos = m.end()
        out += [m.group(3)] * int(m.group(1))
    if pos != len(bban_spec):
        raise Unsupported(f"structure {bban_spec!r}: trailing text the sidecar cannot read")
    return out


def sym_bban(I, cc, prefix="b"):
    """class-conforming symbolic BBAN vector of country cc (upper-case: the compact form)"""
    from schwifty import registry
    s = registry.get("iban")[cc]
    cl = classes(s["bban_spec"])
    chars = [z3.Int(f"{prefix}{i}") for i in range(len(cl))]
    for k, c in zip(cl, chars):
        I.assumptions.append(CLS[k](c))
        I.assumptions.append(Fix(c))
        I.domains[c.decl().name()] = DOMAIN[k]
    return SStr(chars), cl


# ------------------------------------------------------------------------------------------ clean
def clean_contract(I, s):
    """contract of common.clean used by callers: result = Clean(s).  For an argument all of whose characters are
    Fix (no whitespace, fixed under upper) Clean(s) = s - the idempotence fact, checked by enumeration in
    contracts.unicode_facts.  Raw text is handled by the C10 tasks, not here."""
    s = payload(s)
    if isinstance(s, str):
        from schwifty import common
        return common.clean(s)
    if isinstance(s, SDecStr):
        s = I.materialize(s)
    if isinstance(s, SStr):
        if all(I.entails(z3.Or(Fix(c), ascii_clean(c))) for c in s.chars if not z3.is_int_value(c)) and \
                all(_fixed_const(c) for c in s.chars if z3.is_int_value(c)):
            return s
        raise Unsupported("clean() of a vector not known to be clean")
    if isinstance(s, SFn):
        if getattr(s, "all_fix", False):
            return s
        raise Unsupported("clean() of a symbolic-length string not known to be clean")
    raise Raised(TypeError("expected string"))


def _fixed_const(c):
    ch = chr(c.as_long())
    return ch.upper() == ch and not re.match(r"\s", ch)


def fresh_clean_text(I, name, max_len=None):
    """a symbolic-length string p with the Base invariant: every character Fix (instantiated on use)"""
    ln = z3.Int(name + "_len")
    fn = z3.Function(name + "_at", z3.IntSort(), z3.IntSort())
    I.assumptions.append(ln >= 0)
    if max_len is not None:
        I.assumptions.append(ln <= max_len)
    seen = {}

    def at(i):
        i = z3.simplify(i) if z3.is_expr(i) else z3.IntVal(i)
        t = fn(i)
        key = t.get_id()
        if key not in seen:
            seen[key] = t       # keeps the term alive: z3 reuses ids of collected ASTs
            I.assumptions.append(z3.Implies(z3.And(i >= 0, i < ln), z3.And(Fix(t), fix_facts(t))))
        return t
    p = SFn(ln, at, name)
    p.all_fix = True
    p.upper_closed = True
    return p


# ------------------------------------------------------------------------------------------ Num
_NUM = {}


def NumU(chars):
    """opaque spec function Num restricted to a fixed length (callers never see the fold, DESIGN 9.2)"""
    n = len(chars)
    if n == 0:
        return z3.IntVal(0)
    if n not in _NUM:
        _NUM[n] = z3.Function(f"Num{n}", *([z3.IntSort()] * n), z3.IntSort())
    return _NUM[n](*chars)


def z_idx(c):
    return z3.If(c <= 57, c - 48, c - 55)


def num_fold(acc, chars):
    """Num(prefix ++ chars) from acc = Num(prefix): acc*W(c) + idx(c), linear in each branch"""
    for c in chars:
        i = z_idx(c)
        acc = z3.If(i < 10, acc * 10, acc * 100) + i
    return acc


def make_numerify_contract(opaque_prefix):
    """contract of checksum.numerify: requires value non-empty, all [0-9A-Z]; ensures result = Num(value) >= 0.
    At call sites the first `opaque_prefix` characters stay under the uninterpreted NumU."""
    def numerify_contract(I, value):
        v = payload(value)
        if isinstance(v, str):
            from schwifty import checksum
            try:
                return checksum.numerify(v)
            except ValueError as ex:
                raise Raised(ex)
        if isinstance(v, SDecStr):
            v = I.materialize(v)
        if isinstance(v, SFn):
            n = I.pin_length(v)
            if n is None:
                raise Unsupported("numerify of a string of unpinned length")
            v = I.vector_of(v, n)
        s = lift_str(v)
        I.oblige("numerify.requires(non-empty, every character in [0-9A-Z])",
                 z3.And(z3.BoolVal(len(s) > 0), *[z_alnum(c) for c in s.chars]))
        return SInt(num_term(I, s.chars, opaque_prefix))
    return numerify_contract


def make_raising_numerify_contract(opaque_prefix):
    """contract of checksum.numerify for call sites that may pass unvalidated text (from_bban computes the digits
    BEFORE validating): all characters in [0-9A-Z] and non-empty -> Num(value); otherwise ValueError, as str.index
    does (assumed: `_alphabet.index(c)` raises ValueError exactly for characters outside the alphabet)"""
    inner = make_numerify_contract(opaque_prefix)

    def numerify_contract(I, value):
        v = payload(value)
        if isinstance(v, SDecStr):
            v = I.materialize(v)
        if isinstance(v, SFn):
            n = I.pin_length(v)
            if n is None:
                raise Unsupported("numerify of a string of unpinned length")
            v = I.vector_of(v, n)
        if isinstance(v, str):
            return inner(I, value)
        s = lift_str(v)
        ok = z3.And(z3.BoolVal(len(s) > 0), *[z_alnum(c) for c in s.chars])
        if I.branch(SBool(ok)):
            return inner(I, SStr(list(s.chars)))
        raise Raised(ValueError("substring not found"))
    return numerify_contract


def num_term(I, chars, opaque_prefix):
    """Num(chars) as a term.  opaque_prefix = k > 0: the first k characters stay under NumU, the rest is unfolded;
    'auto': exact decimal polynomial when every character is provably a digit, else NumU on the whole string"""
    if isinstance(opaque_prefix, tuple) and opaque_prefix[0] == "iban":
        # IBAN-level calls (BBAN + cc [+ dd]) share the opaque Num of the BBAN; national bodies are 'auto'
        L = opaque_prefix[1]
        opaque_prefix = L if len(chars) in (L + 2, L + 4) else "auto"
    if opaque_prefix == "auto":
        if all(I.entails(z_digit(c)) for c in chars):
            acc = z3.IntVal(0)
            for c in chars:
                acc = acc * 10 + (c - 48)
            return acc
        acc = NumU(list(chars))
        I.assumptions.append(acc >= 0)
        return acc
    k = opaque_prefix if opaque_prefix and len(chars) >= opaque_prefix else 0
    if k:
        acc = NumU(list(chars[:k]))
        I.assumptions.append(acc >= 0)
    else:
        acc = z3.IntVal(0)
    return num_fold(acc, chars[k:])


def make_num_spec_contract(opaque_prefix):
    """the spec function Num seen from a caller's VC: the same (partly) opaque term as numerify's contract"""
    def num_spec_contract(I, s):
        v = payload(s)
        if isinstance(v, str):
            return Num(v)
        return SInt(num_term(I, lift_str(v).chars, opaque_prefix))
    return num_spec_contract


@spec
def idx(ch):
    return ite(is_digit(ch), ord(ch) - 48, ord(ch) - 55)


@spec
def Num(s):
    """the ISO 13616 numeric rendering: digits stand for themselves, A..Z for 10..35, concatenated decimally"""
    n = 0
    for ch in s:
        i = idx(ch)
        n = ite(i < 10, n * 10, n * 100) + i
    return n


# ------------------------------------------------------------------------------------------ BBAN.bank
class AbstractEntry(dict):
    """abstract registry entry: only the keys listed are known; any other access is outside the contract"""

    def __bool__(self):
        return True

    def __missing__(self, key):
        raise Unsupported(f"bank entry field {key!r} is not part of the BBAN.bank contract used here")

    def get(self, key, default=None):
        if key in self:
            return dict.get(self, key)
        if key in self.absent:
            return default
        raise Unsupported(f"bank entry field {key!r} is not part of the BBAN.bank contract used here")


def bank_variants(cc, key="checksum_algo"):
    """distinct values of `key` among the registry entries of country cc (MISSING for entries without it)"""
    from schwifty import registry
    vals = set()
    for e in registry.get("bank"):
        if e.get("country_code") == cc:
            vals.add(e.get(key, "<MISSING>"))
    return sorted(vals, key=str)


def make_bank_contract(only=None):
    """contract of BBAN.bank as used by validate_national_checksum: the result is None, or some entry of the bank
    registry whose country_code is the BBAN's (proved for the real property in C12).  The caller sees an
    arbitrary such entry: a fresh boolean oracle per distinct `checksum_algo` value chooses it."""
    def bank_contract(I, self):
        cc = I.getattr(self, "country_code")
        cc = concretize(payload(cc)) if is_sym(payload(cc)) else payload(cc)
        if not isinstance(cc, str):
            raise Unsupported("BBAN.bank contract with symbolic country code")
        variants = bank_variants(cc) if only is None else list(only)
        choices = [None] + variants if only is None else variants
        for i, v in enumerate(choices[:-1]):
            if I.branch(SBool(z3.Bool(f"bank_oracle_{i}"))):
                return _entry(v)
        return _entry(choices[-1])
    return bank_contract


def _entry(v):
    if v is None:
        return None
    e = AbstractEntry()
    e.absent = set()
    if v == "<MISSING>":
        e.absent.add("checksum_algo")
    else:
        e["checksum_algo"] = v
    return e
