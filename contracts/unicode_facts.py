"""Facts about \\s, str.upper and the live whitespace pattern, decided by exhaustive enumeration of all 1,114,112
code points on the running interpreter (finite, complete).  They justify the Base invariant used by the
contracts (contracts.common.Fix) and the contract Clean(s) = s for clean s."""
from __future__ import annotations

import re

MAXCP = 0x110000


def check():
    """returns list of dict(name, ok, detail)"""
    from schwifty import common
    from pyvc import rx
    pat = getattr(common, "_clean_regex", None)
    ws = re.compile(r"\s")
    is_ws = [False] * MAXCP
    up = [None] * MAXCP
    for cp in range(MAXCP):
        ch = chr(cp)
        is_ws[cp] = ws.match(ch) is not None
        up[cp] = ch.upper()
    out = []

    def fact(name, bad):
        out.append(dict(name=name, ok=not bad, detail=("" if not bad else f"{len(bad)} counterexamples, e.g. "
                                                       + ", ".join(f"U+{b:04X}" for b in bad[:5])),
                        witness=[chr(b) for b in bad[:3]]))

    # F1 the live pattern has the shape (class)+ and removes exactly the \s characters
    if isinstance(pat, re.Pattern):
        shape = rx.removal_class(pat) is not None
        removed = [cp for cp in range(MAXCP) if (pat.sub("", chr(cp)) == "") != is_ws[cp]]
        out.append(dict(name="F1 common._clean_regex has the shape (class)+", ok=shape, detail=pat.pattern, witness=[]))
        fact("F1' the class of common._clean_regex is exactly \\s (per code point)", removed)
        # F1'' sub on a mixed string removes exactly those characters (probe of the assumed contract of Pattern.sub)
        probe = "a\tb c d e\nf　g\x1ch"
        exp = "".join(c for c in probe if not is_ws[ord(c)])
        out.append(dict(name="F1'' Pattern.sub('', s) removes exactly the class characters (probe)",
                        ok=pat.sub("", probe) == exp, detail=repr(pat.sub("", probe)), witness=[]))
    else:
        # clean() no longer uses the module-level pattern: decide the per-character behaviour of clean itself
        removed = [cp for cp in range(MAXCP) if (common.clean(chr(cp)) == "") != is_ws[cp]]
        fact("F1* clean() removes a single character exactly when it is \\s (per code point; no _clean_regex found)", removed)
    # F2 every character of upper(c), c not whitespace, is a fixed point of upper and not whitespace  (=> Fix)
    bad = []
    for cp in range(MAXCP):
        if is_ws[cp]:
            continue
        for d in up[cp]:
            if is_ws[ord(d)] or up[ord(d)] != d:
                bad.append(cp)
                break
    fact("F2 every character of upper(c) (c not \\s) is not \\s and fixed under upper  [payload characters are Fix]", bad)
    # F3 a Fix character is untouched by Clean: not whitespace (by definition) and upper(c) == c
    #    => Clean(s) = s for s all Fix (idempotence).  Nothing to enumerate beyond the definition; recorded for the trace
    out.append(dict(name="F3 Clean(s) = s when every character is Fix (by definition of Fix)", ok=True, detail="", witness=[]))
    # F4 ASCII: a-z -> A-Z; printable ASCII other than blank and a-z is not \s and fixed under upper
    bad = [cp for cp in range(97, 123) if up[cp] != chr(cp - 32)]
    bad += [cp for cp in list(range(33, 97)) + list(range(123, 127)) if is_ws[cp] or up[cp] != chr(cp)]
    fact("F4 upper maps a-z to A-Z; [!-`{-~] are not \\s and fixed under upper", bad)
    # F5 Fix excludes \s and a-z (the consequences contracts.common.fix_facts hands to the solver)
    bad = [cp for cp in range(MAXCP) if (not is_ws[cp] and up[cp] == chr(cp)) and (97 <= cp <= 122)]
    fact("F5 no Fix character is in a-z", bad)
    # F6 upper is a per-character map (no context rule): probe on strings around the multi-character expansions
    probes = ["ßa", "aß", "ŉx", "ǰ", "ﬁﬂ", "ΐ", "σς", "ıİ", "ȧ", "straße", "ǆǅǄ"]
    okp = all(p.upper() == "".join(up[ord(c)] for c in p) for p in probes)
    out.append(dict(name="F6 str.upper is the per-character map (probe; assumed in general)", ok=okp, detail="", witness=[]))
    stats = dict(code_points=MAXCP, whitespace=sum(is_ws), multi_char_upper=sum(1 for u in up if len(u) > 1))
    return out, stats
