"""Sidecar specification of the national check-digit rules (C06), written from the published algorithms,
independent of the helper structure of schwifty.checksum.*.  `b` is the BBAN (compact form, class-conforming)."""
from pyvc.spec import band, bnot, bor, digit, is_digit, ite, spec
from contracts.common import Num


@spec
def value(s):
    n = 0
    for ch in s:
        n = n * 10 + digit(ch)
    return n


@spec
def two(s):
    return digit(s[0]) * 10 + digit(s[1])


@spec
def wsum(s, weights):
    t = 0
    for i in range(len(weights)):
        t = t + digit(s[i]) * weights[i]
    return t


# Belgium: the last two digits are the first ten taken modulo 97, with 0 replaced by 97
@spec
def nat_BE(b):
    r = value(b[0:10]) % 97
    return two(b[10:12]) == ite(r == 0, 97, r)


# ISO 7064 mod 97-10 over the digits (letters expanded as in ISO 13616) before the two-digit field
@spec
def mod97_10(body, field):
    return two(field) == 98 - (Num(body) * 100) % 97


@spec
def nat_BA(b):
    return mod97_10(b[0:14], b[14:16])


@spec
def nat_ME(b):
    return mod97_10(b[0:16], b[16:18])


@spec
def nat_MK(b):
    return mod97_10(b[0:13], b[13:15])


@spec
def nat_PT(b):
    return mod97_10(b[0:19], b[19:21])


@spec
def nat_RS(b):
    return mod97_10(b[0:16], b[16:18])


@spec
def nat_SI(b):
    return mod97_10(b[0:13], b[13:15])


@spec
def nat_TL(b):
    return mod97_10(b[0:17], b[17:19])


# Mauritania, Tunisia: 97 - (N * 100 mod 97)
@spec
def variant97(body, field):
    return two(field) == 97 - (value(body) * 100) % 97


@spec
def nat_MR(b):
    return variant97(b[0:21], b[21:23])


@spec
def nat_TN(b):
    return variant97(b[0:18], b[18:20])


# France, Monaco: RIB key = 97 - ((89*bank + 15*branch + 3*account) mod 97), letters of the account number
# replaced by digits: A,J -> 1; B,K,S -> 2; C,L,T -> 3; D,M,U -> 4; E,N,V -> 5; F,O,W -> 6; G,P,X -> 7; H,Q,Y -> 8;
# I,R,Z -> 9
@spec
def rib_digit(ch):
    o = ord(ch)
    return ite(is_digit(ch), o - 48, ite(o <= 73, o - 64, ite(o <= 82, o - 73, o - 81)))


@spec
def rib_value(s):
    n = 0
    for ch in s:
        n = n * 10 + rib_digit(ch)
    return n


@spec
def nat_FR(b):
    key = 97 - (89 * rib_value(b[0:5]) + 15 * rib_value(b[5:10]) + 3 * rib_value(b[10:21])) % 97
    return two(b[21:23]) == key


# Spain: two mod-11 digits; first over bank+branch with weights 4,8,5,10,9,7,3,6 (= 1,2,4,8,5,10,9,7,3,6 on
# "00"+bank+branch), second over the account number with 1,2,4,8,5,10,9,7,3,6; 11 - remainder, 10 -> 1, 11 -> 0
@spec
def es_digit(r):
    d = 11 - r
    return ite(d == 11, 0, ite(d == 10, 1, d))


@spec
def nat_ES(b):
    d1 = es_digit(wsum(b[0:8], (4, 8, 5, 10, 9, 7, 3, 6)) % 11)
    d2 = es_digit(wsum(b[10:20], (1, 2, 4, 8, 5, 10, 9, 7, 3, 6)) % 11)
    return band(digit(b[8]) == d1, digit(b[9]) == d2)


# Italy, San Marino: CIN.  Characters of ABI+CAB+account at odd positions (1st, 3rd, ...) are mapped through the
# odd table, those at even positions count their value (digit 0-9, letter A=0..Z=25); sum mod 26 -> letter
ODD = (1, 0, 5, 7, 9, 13, 15, 17, 19, 21, 2, 4, 18, 20, 11, 3, 6, 8, 12, 14, 16, 10, 22, 25, 24, 23)


@spec
def cin_val(ch):
    return ite(is_digit(ch), ord(ch) - 48, ord(ch) - 65)


@spec
def nat_IT(b):
    s = b[1:23]
    t = 0
    for k in range(22):
        v = cin_val(s[k])
        t = t + ite(k % 2 == 0, ODD[v], v)
    return ord(b[0]) == 65 + t % 26


# Finland: Luhn (modulus 10, weights 2,1,2,... from the right, digit sums of the products) over the first 13 digits
@spec
def nat_FI(b):
    t = 0
    for k in range(13):
        p = digit(b[12 - k]) * (2 - k % 2)
        t = t + p // 10 + p % 10
    return digit(b[13]) == (10 - t % 10) % 10


# Norway: modulus 11, weights 5,4,3,2,7,6,5,4,3,2 over the first ten digits; 11 - remainder; 11 -> 0; 10: no valid
# account number exists.  Accounts whose 5th and 6th digits are 00 (the first two of the six-digit account part):
# the bank identifier is left out of the sum, i.e. only the last four account digits count, with the weights of their
# positions (5,4,3,2) - this is the reading the library documents by its own test vector (6042 143964 0 is the
# ordinary case); it could not be re-read from an independent source offline and is recorded as an ASSUMPTION of
# C06 (evidence), not as an independently confirmed rule.
@spec
def no_band(b):
    return band(digit(b[4]) == 0, digit(b[5]) == 0)


@spec
def nat_NO(b):
    full = wsum(b[0:10], (5, 4, 3, 2, 7, 6, 5, 4, 3, 2))
    short = wsum(b[6:10], (5, 4, 3, 2))
    r = ite(no_band(b), short, full) % 11
    c = 11 - r
    return band(c != 10, digit(b[10]) == ite(c == 11, 0, c))


# Poland: modulus 10, weights 3,9,7,1,3,9,7 over bank+branch (7 digits); check = (10 - s mod 10) mod 10
@spec
def nat_PL(b):
    return digit(b[7]) == (10 - wsum(b[0:7], (3, 9, 7, 1, 3, 9, 7)) % 10) % 10


# Estonia: 7-3-1 method from the right over branch+account (13 digits before the check digit)
@spec
def nat_EE(b):
    t = 0
    for k in range(13):
        t = t + digit(b[14 - k]) * (7, 3, 1)[k % 3]
    return digit(b[15]) == (10 - t % 10) % 10


# Czechia, Slovakia: prefix (6 digits) and account number (10 digits) each divisible by 11 under the weights
# 10,5,8,4,2,1 and 6,3,7,9,10,5,8,4,2,1
@spec
def nat_CZ(b):
    return band(wsum(b[4:10], (10, 5, 8, 4, 2, 1)) % 11 == 0,
                wsum(b[10:20], (6, 3, 7, 9, 10, 5, 8, 4, 2, 1)) % 11 == 0)


# Iceland: 9th digit of the kennitala (account holder id, BBAN positions 13-22): weights 3,2,7,6,5,4,3,2 over
# its first eight digits, 11 - remainder, remainder 0 -> 0, result 10 -> invalid
@spec
def nat_IS(b):
    r = wsum(b[12:20], (3, 2, 7, 6, 5, 4, 3, 2)) % 11
    c = ite(r == 0, 0, 11 - r)
    return band(c != 10, digit(b[20]) == c)


EXACT = {"BE": nat_BE, "BA": nat_BA, "ME": nat_ME, "MK": nat_MK, "PT": nat_PT, "RS": nat_RS, "SI": nat_SI,
         "TL": nat_TL, "MR": nat_MR, "TN": nat_TN, "FR": nat_FR, "MC": nat_FR, "ES": nat_ES, "IT": nat_IT,
         "SM": nat_IT, "FI": nat_FI, "PL": nat_PL, "EE": nat_EE, "CZ": nat_CZ, "SK": nat_CZ, "IS": nat_IS,
         "NO": nat_NO}
BAND = {}
COUNTRIES_22 = sorted(list(EXACT) + list(BAND))
