"""Sidecar specification of BIC acceptance (ISO 9362 structure + ISO 3166-1 alpha-2 country code) - C04, C05."""
import z3

from pyvc import models
from pyvc.spec import band, bnot, bor, is_digit, is_upper, ite, spec
from pyvc.values import SBool, lift_str


def in_iso(cc):
    """cc (two characters) is an ISO 3166-1 alpha-2 code - the list pycountry ships (assumption A5)"""
    return cc in models.iso_codes()


def _m_in_iso(I, cc):
    s = lift_str(cc)
    c0, c1 = s.chars
    return SBool(z3.Or(*[z3.And(c0 == ord(k[0]), c1 == ord(k[1])) for k in models.iso_codes()]))


models.BUILTIN_MODELS[in_iso] = _m_in_iso


@spec
def alnum(ch):
    return bor(is_digit(ch), is_upper(ch))


@spec
def bic_structure(p, strict):
    """party prefix (4 alphanumeric, letters only when strict), country (2 letters), location (2 alphanumeric),
    optional branch (3 alphanumeric); len(p) in {8, 11} is a precondition"""
    ok = True
    for i in range(4):
        ok = band(ok, ite(strict, is_upper(p[i]), alnum(p[i])))
    ok = band(ok, is_upper(p[4]), is_upper(p[5]), alnum(p[6]), alnum(p[7]))
    if len(p) == 11:
        ok = band(ok, alnum(p[8]), alnum(p[9]), alnum(p[10]))
    return ok


@spec
def accept_bic(p, strict):
    if len(p) != 8 and len(p) != 11:
        return False
    return band(bic_structure(p, strict), in_iso(p[4:6]))


@spec
def bic_defect_length(p, strict):
    return len(p) != 8 and len(p) != 11


@spec
def bic_defect_structure(p, strict):
    if len(p) != 8 and len(p) != 11:
        return False
    return bnot(bic_structure(p, strict))


@spec
def bic_defect_country(p, strict):
    if len(p) != 8 and len(p) != 11:
        return False
    return bnot(in_iso(p[4:6]))
