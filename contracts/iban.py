"""Sidecar specification of IBAN acceptance (ISO 13616 over the bundled table) and of the defect each
validation error class names (C01, C02, C05).  `p` is the compact form (the payload after Clean)."""
from pyvc.spec import band, bnot, bor, digit, is_digit, is_upper, ite, spec
from contracts.common import Num


@spec
def in_class(ch, k):
    # n: digit, a: upper-case letter, c: alphanumeric (lower case cannot survive Clean)
    if k == "n":
        return is_digit(ch)
    if k == "a":
        return is_upper(ch)
    return bor(is_digit(ch), is_upper(ch))


@spec
def structure_ok(p, cls):
    """every BBAN character belongs to the class its position has (len(p) == len(cls) + 4 is a precondition)"""
    ok = True
    for i in range(len(cls)):
        ok = band(ok, in_class(p[4 + i], cls[i]))
    return ok


@spec
def head_ok(p):
    """two upper-case letters and two digits lead the text (len(p) >= 4 is a precondition)"""
    return band(is_upper(p[0]), is_upper(p[1]), is_digit(p[2]), is_digit(p[3]))


@spec
def canonical_digits(p):
    """the ISO 7064 mod 97-10 check digits of BBAN + country code: 98 - (Num(bban + cc) * 100 mod 97)"""
    return 98 - (Num(p[4:] + p[0:2]) * 100) % 97


@spec
def digits_ok(p):
    k = canonical_digits(p)
    return band(digit(p[2]) == k // 10, digit(p[3]) == k % 10)


@spec
def accept_k(p, cc, cls):
    """Accept_K(p): p is a valid IBAN of country cc whose structure classes are cls"""
    if len(p) != len(cls) + 4:
        return False
    return band(p[0] == cc[0], p[1] == cc[1], head_ok(p), structure_ok(p, cls), digits_ok(p))


# ---- the defect each error class names (C05).  K = (cc, cls) when the country code is in the table, else None
@spec
def defect_structure(p, known, cls):
    """InvalidStructure: illegal characters or structure: the head is not LLDD, or (country known, length
    right) some BBAN character is outside its class"""
    if len(p) < 4:
        return True
    if known and len(p) == len(cls) + 4:
        return bor(bnot(head_ok(p)), bnot(structure_ok(p, cls)))
    return bnot(head_ok(p))


@spec
def defect_length(p, known, cls):
    """InvalidLength: the country is known and the length is not the country's"""
    return known and len(p) != len(cls) + 4


@spec
def defect_digits(p, known, cls):
    """InvalidChecksumDigits: failed mod-97 check: structure is fine but the digits are not the canonical ones"""
    if not known or len(p) != len(cls) + 4:
        return False
    return band(head_ok(p), structure_ok(p, cls), bnot(digits_ok(p)))
