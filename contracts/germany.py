"""Sidecar specification of the Bundesbank check-digit methods (Pruefzifferberechnungsmethoden) implemented by
schwifty.checksum.germany.  Written from the published method descriptions (DESIGN.md C07 table), positions are
1-based from the left as in the Bundesbank text, `a` is the ten-digit account number.

Every function is ordinary Python in the pyvc subset: interpreted symbolically to build the clause and executed
natively as the replay oracle.  Deliberately NOT structured like the code (no class hierarchy, no reversal +
cycle, no shared state)."""
from pyvc.spec import band, bnot, bor, digit, ite, spec


@spec
def qs(n):
    # digit sum of a product 0..99
    return n // 10 + n % 10


@spec
def wsum(a, lo, hi, weights, mode):
    """sum over positions hi down to lo of digit*weight (weights cycled, starting at position hi);
    mode 0: plain product, 1: digit sum of the product, 2: units digit of the product"""
    s = 0
    k = 0
    for pos in range(hi, lo - 1, -1):
        p = digit(a[pos - 1]) * weights[k % len(weights)]
        if mode == 1:
            p = qs(p)
        if mode == 2:
            p = p % 10
        s = s + p
        k = k + 1
    return s


@spec
def m00(a, lo, hi, cd):
    return (10 - wsum(a, lo, hi, (2, 1), 1) % 10) % 10 == digit(a[cd - 1])


@spec
def m01(a, w):
    return (10 - wsum(a, 1, 9, w, 0) % 10) % 10 == digit(a[9])


@spec
def m02(a, w, lo, hi, cd):
    # remainder 0 -> check digit 0; remainder 1 -> account number invalid; else 11 - remainder
    r = wsum(a, lo, hi, w, 0) % 11
    return band(r != 1, ite(r == 0, 0, 11 - r) == digit(a[cd - 1]))


@spec
def m06(a, w, lo, hi, cd):
    # remainder 0 or 1 -> check digit 0; else 11 - remainder
    r = wsum(a, lo, hi, w, 0) % 11
    return ite(r <= 1, 0, 11 - r) == digit(a[cd - 1])


@spec
def s00(a):
    return m00(a, 1, 9, 10)


@spec
def s01(a):
    return m01(a, (3, 7, 1))


@spec
def s02(a):
    return m02(a, (2, 3, 4, 5, 6, 7, 8, 9), 1, 9, 10)


@spec
def s03(a):
    return m01(a, (2, 1))


@spec
def s04(a):
    return m02(a, (2, 3, 4, 5, 6, 7), 1, 9, 10)


@spec
def s05(a):
    return m01(a, (7, 3, 1))


@spec
def s06(a):
    return m06(a, (2, 3, 4, 5, 6, 7), 1, 9, 10)


@spec
def s07(a):
    return m02(a, (2, 3, 4, 5, 6, 7, 8, 9, 10), 1, 9, 10)


@spec
def value(a):
    n = 0
    for ch in a:
        n = n * 10 + digit(ch)
    return n


@spec
def s08(a):
    # as 00, but only from account number 60 000 on
    return bor(value(a) < 60000, m00(a, 1, 9, 10))


@spec
def s09(a):
    return True


@spec
def s10(a):
    return m06(a, (2, 3, 4, 5, 6, 7, 8, 9, 10), 1, 9, 10)


@spec
def s11(a):
    # as 10, but a computed result of 10 is replaced by 9 (instead of 0)
    r = wsum(a, 1, 9, (2, 3, 4, 5, 6, 7, 8, 9, 10), 0) % 11
    return ite(r == 0, 0, ite(r == 1, 9, 11 - r)) == digit(a[9])


@spec
def s13_main(a):
    return m00(a, 2, 7, 8)


@spec
def s13_upper(a):
    # sub-account "00" omitted: the number was shifted right by two; retry on the shifted number
    return bor(m00(a, 2, 7, 8), m00(a[2:] + "00", 2, 7, 8))


@spec
def s14(a):
    return m02(a, (2, 3, 4, 5, 6, 7), 4, 9, 10)


@spec
def s15(a):
    return m06(a, (2, 3, 4, 5), 6, 9, 10)


@spec
def m16(a, w, lo, hi, cd):
    # as 06; remainder 1: correct irrespective of the computation iff the check digit equals its left neighbour
    r = wsum(a, lo, hi, w, 0) % 11
    return bor(band(r == 1, a[cd - 2] == a[cd - 1]), ite(r <= 1, 0, 11 - r) == digit(a[cd - 1]))


@spec
def s16(a):
    return m16(a, (2, 3, 4, 5, 6, 7), 1, 9, 10)


@spec
def s17(a):
    # positions 2..7 left to right, weights 1,2,1,2,1,2, digit sums; (sum - 1) mod 11 = r; r = 0 -> 0 else 10 - r
    s = 0
    k = 0
    for pos in range(2, 8):
        s = s + qs(digit(a[pos - 1]) * (1, 2)[k % 2])
        k = k + 1
    r = (s - 1) % 11
    return ite(r == 0, 0, 10 - r) == digit(a[7])


@spec
def s18(a):
    return m01(a, (3, 9, 7, 1))


@spec
def s19(a):
    return m06(a, (2, 3, 4, 5, 6, 7, 8, 9, 1), 1, 9, 10)


@spec
def s20(a):
    return m06(a, (2, 3, 4, 5, 6, 7, 8, 9, 3), 1, 9, 10)


@spec
def s21(a):
    # as 00, but the sum is reduced to one digit by repeated digit sums; check digit = 10 - that digit
    s = wsum(a, 1, 9, (2, 1), 1)          # at most 81
    s = ite(s >= 10, qs(s), s)            # at most 16
    s = ite(s >= 10, qs(s), s)            # one digit
    return (10 - s) % 10 == digit(a[9])


@spec
def s22(a):
    return (10 - wsum(a, 1, 9, (3, 1), 2) % 10) % 10 == digit(a[9])


@spec
def s23(a):
    return m16(a, (2, 3, 4, 5, 6, 7), 1, 6, 7)


@spec
def term24(d, w):
    return (d * w + w) % 11


@spec
def s24(a):
    # positions 1..9 left to right; first digit 3,4,5,6 counts as 0; first digit 9: first three count as 0;
    # weighting 1,2,3,1,2,3,... starts at the first non-zero digit; sum of (d*w + w) mod 11; units digit
    d = [digit(a[i]) for i in range(9)]
    d[0] = ite(band(d[0] >= 3, d[0] <= 6), 0, d[0])
    nine = digit(a[0]) == 9
    d[0] = ite(nine, 0, d[0])
    d[1] = ite(nine, 0, d[1])
    d[2] = ite(nine, 0, d[2])
    total = 0
    for start in range(9):
        # case: first non-zero digit is at index `start`
        lead = d[start] != 0
        for j in range(start):
            lead = band(lead, d[j] == 0)
        t = 0
        for i in range(start, 9):
            t = t + term24(d[i], (1, 2, 3)[(i - start) % 3])
        total = total + ite(lead, t, 0)
    return total % 10 == digit(a[9])


@spec
def s25(a):
    # mod 11, weights 2..9 on positions 2..9; r = 0 -> 0; r = 1 -> 0, and only for work accounts (pos 2 is 8 or 9)
    r = wsum(a, 2, 9, (2, 3, 4, 5, 6, 7, 8, 9), 0) % 11
    d2 = digit(a[1])
    return ite(r == 0, digit(a[9]) == 0,
               ite(r == 1, band(digit(a[9]) == 0, bor(d2 == 8, d2 == 9)), 11 - r == digit(a[9])))


@spec
def s26(a):
    # leading "00": shift left by two, fill with "00"; then 06 with weights 2..7,2 on positions 1..7, check digit 8
    sh = band(a[0] == "0", a[1] == "0")
    b = [ite(sh, digit((a[2:] + "00")[i]), digit(a[i])) for i in range(10)]
    s = 0
    w = (2, 3, 4, 5, 6, 7, 2)
    for k in range(7):
        s = s + b[6 - k] * w[k]
    r = s % 11
    return ite(r <= 1, 0, 11 - r) == b[7]


@spec
def s28(a):
    return m06(a, (2, 3, 4, 5, 6, 7, 8), 1, 7, 8)


@spec
def s32(a):
    return m06(a, (2, 3, 4, 5, 6, 7), 4, 9, 10)


@spec
def s33(a):
    return m06(a, (2, 3, 4, 5, 6), 5, 9, 10)


@spec
def s34(a):
    return m06(a, (2, 4, 8, 5, 10, 9, 7), 1, 7, 8)


@spec
def s38(a):
    return m06(a, (2, 4, 8, 5, 10, 9), 4, 9, 10)


@spec
def s60(a):
    return m00(a, 3, 9, 10)


@spec
def s61(a):
    # as 00 on positions 1..7 (weights 2,1,2,1,2,1,2 left to right), check digit 8; if the kind digit (position 9)
    # is 8, positions 9 and 10 are included, the weighting 2,1,2,1,2,1,2,1,2 continuing over them
    s = wsum(a, 1, 7, (2, 1), 1)
    extra = qs(digit(a[8]) * 1) + qs(digit(a[9]) * 2)
    s = s + ite(a[8] == "8", extra, 0)
    return (10 - s % 10) % 10 == digit(a[7])


@spec
def s63_main(a):
    return band(a[0] == "0", m00(a, 2, 7, 8))


@spec
def s63_upper(a):
    # sub-account omitted (positions 1-3 zero): check digit moves to position 10, base number positions 4..9
    return bor(band(a[0] == "0", m00(a, 2, 7, 8)),
               band(a[0] == "0", a[1] == "0", a[2] == "0", m00(a, 4, 9, 10)))


@spec
def s68(a):
    # ten-digit numbers: position 4 must be 9, 00 on positions 4..9; nine-digit 400000000..499999999 are not
    # checkable (valid); six- to nine-digit: 00 on positions 2..9, failing that with positions 3 and 4 left out
    n = value(a)
    ten = a[0] != "0"
    v_ten = band(a[3] == "9", m00(a, 4, 9, 10))
    free = band(n >= 400000000, n <= 499999999)
    v1 = m00(a, 2, 9, 10)
    v2 = m00(a[:2] + "00" + a[4:], 2, 9, 10)
    return ite(ten, v_ten, bor(free, v1, v2))


@spec
def r76(a):
    return wsum(a, 2, 7, (2, 3, 4, 5, 6, 7, 8), 0) % 11


@spec
def kind76(a):
    k = digit(a[0])
    return bor(k == 0, k == 4, k >= 6)


@spec
def s76_lower(a):
    # account kind (position 1) in 0,4,6,7,8,9; mod 11 on positions 2..7, check digit (position 8) = remainder;
    # remainder 10: not usable
    return band(kind76(a), r76(a) == digit(a[7]))


@spec
def s76_upper(a):
    # sub-account omitted: retry on the number shifted left by two
    b = a[2:] + "00"
    return bor(band(kind76(a), r76(a) == digit(a[7])), band(kind76(b), r76(b) == digit(b[7])),
               band(kind76(a), r76(a) == 10, digit(a[7]) == 0))


@spec
def s76_reading(a):
    # the reading the library implements inside the band (recorded at build time, see PIN below): remainder 10 is
    # accepted with check digit 0; no retry on the shifted number
    return bor(band(kind76(a), r76(a) == digit(a[7])), band(kind76(a), r76(a) == 10, digit(a[7]) == 0))


@spec
def s88(a):
    return ite(a[2] == "9", m06(a, (2, 3, 4, 5, 6, 7, 8), 3, 9, 10), m06(a, (2, 3, 4, 5, 6, 7), 4, 9, 10))


@spec
def v91(a, ws, hi):
    s = 0
    for i in range(len(ws)):
        s = s + digit(a[hi - 1 - i]) * ws[i]
    r = s % 11
    return ite(r <= 1, 0, 11 - r) == digit(a[6])


@spec
def s91(a):
    # check digit at position 7; four variants, any of which may succeed
    return bor(v91(a, (2, 3, 4, 5, 6, 7), 6), v91(a, (7, 6, 5, 4, 3, 2), 6),
               v91(a, (2, 3, 4, 0, 5, 6, 7, 8, 9, 10), 10), v91(a, (2, 4, 8, 5, 10, 9), 6))


@spec
def s99(a):
    n = value(a)
    return bor(band(n >= 396000000, n <= 499999999), m06(a, (2, 3, 4, 5, 6, 7), 1, 9, 10))


EXACT = {"00": s00, "01": s01, "02": s02, "03": s03, "04": s04, "05": s05, "06": s06, "07": s07, "08": s08,
         "09": s09, "10": s10, "11": s11, "14": s14, "15": s15, "16": s16, "17": s17, "18": s18, "19": s19,
         "20": s20, "21": s21, "22": s22, "23": s23, "24": s24, "25": s25, "26": s26, "28": s28, "32": s32,
         "33": s33, "34": s34, "38": s38, "60": s60, "61": s61, "68": s68, "88": s88, "91": s91, "99": s99}
# sandwich bands: the published rule has a clause (omitted sub-account retry / remainder 10) that could not be
# re-read offline; lower ⊆ code ⊆ upper is proved, the band in between is declared unspecified (DESIGN C07)
BAND = {"13": (s13_main, s13_upper), "63": (s63_main, s63_upper), "76": (s76_lower, s76_upper)}
# inside a band the property is undecidable offline; to notice that the code MOVED inside a band, the verdict function
# the library implements today is pinned: a tree whose verdict differs from the pin but stays inside the band is
# reported UNDECIDED (exit 2), never as a violation and never as a pass
PIN = {"13": s13_main, "63": s63_main, "76": s76_reading}


@spec
def digit_sum_spec(n):
    return n // 10 + n % 10
