"""Sidecar specification of IBAN generation from components (C08, C09).

x' = Clean(x) is the cleaned component; lb, lr, la are the widths of the bank, branch and account fields the
country publishes (0 when it has no such field)."""
from pyvc.spec import spec


@spec
def placement(bank, branch, account, lb, lr, la):
    """what the statement of C08 fixes about the outcome for cleaned components:
      ("FITS", bank field, branch field, account field)  - every component fits; each field holds its component
                                                            left-padded with zeros (a bank code of combined
                                                            bank+branch width is split across both fields)
      ("TOO_LONG", [error classes])                      - some component is longer than its field: one of these
                                                            component-specific classes must be raised
      ("CONFLICT",)                                       - a combined-width bank code AND a branch code were both
                                                            supplied: both cannot be placed, so nothing may be
                                                            returned (a library error is the only admissible outcome)
    """
    bank_p = bank.zfill(lb)
    branch_p = branch.zfill(lr)
    account_p = account.zfill(la)
    if lr > 0 and len(bank_p) == lb + lr:
        if len(branch) > 0:
            return ("CONFLICT",)
        branch_p = bank_p[lb:]
        bank_p = bank_p[:lb]
    too_long = []
    if len(bank_p) > lb:
        too_long.append("InvalidBankCode")
    if len(branch_p) > lr:
        too_long.append("InvalidBranchCode")
    if len(account_p) > la:
        too_long.append("InvalidAccountCode")
    if too_long:
        return ("TOO_LONG", too_long)
    return ("FITS", bank_p, branch_p, account_p)
