import Mathlib.Data.Nat.Prime.Basic
import Mathlib.Tactic

structure Ch where
  i : ℕ      -- idx
  w : ℕ      -- 10 or 100

def num (l : List Ch) : ℕ := l.foldl (fun acc c => acc * c.w + c.i) 0
def pw  (l : List Ch) : ℕ := (l.map (·.w)).prod

theorem pw_cons (c : Ch) (t : List Ch) : pw (c :: t) = c.w * pw t := by simp [pw]

theorem foldl_acc (l : List Ch) (a : ℕ) :
    l.foldl (fun acc c => acc * c.w + c.i) a = a * pw l + num l := by
  induction l generalizing a with
  | nil => simp [pw, num]
  | cons c t ih =>
    have h1 := ih (a * c.w + c.i)
    have h2 := ih (0 * c.w + c.i)
    have h3 : num (c :: t) = t.foldl (fun acc c => acc * c.w + c.i) (0 * c.w + c.i) := rfl
    rw [List.foldl_cons, h1, h3, h2, pw_cons]
    ring

theorem num_append (a b : List Ch) : num (a ++ b) = num a * pw b + num b := by
  unfold num; rw [List.foldl_append, foldl_acc]; rfl

theorem num_single (c : Ch) : num [c] = c.i := by simp [num]
theorem pw_single  (c : Ch) : pw [c] = c.w := by simp [pw]
theorem pw_append (a b : List Ch) : pw (a ++ b) = pw a * pw b := by simp [pw]

theorem num_subst (p s : List Ch) (x y : Ch) (hw : x.w = y.w) :
    num (p ++ x :: s) + y.i * pw s = num (p ++ y :: s) + x.i * pw s := by
  have e1 : p ++ x :: s = p ++ ([x] ++ s) := by simp
  have e2 : p ++ y :: s = p ++ ([y] ++ s) := by simp
  rw [e1, e2, num_append, num_append, num_append, num_append, pw_append, pw_append,
      num_single, num_single, pw_single, pw_single, hw]
  ring

def W10 (l : List Ch) : Prop := ∀ c ∈ l, c.w = 10 ∨ c.w = 100

theorem pw_coprime (l : List Ch) (h : W10 l) : Nat.Coprime 97 (pw l) := by
  induction l with
  | nil => simp [pw]
  | cons c t ih =>
    have hc := h c (by simp)
    have ht : W10 t := fun d hd => h d (by simp [hd])
    simp only [pw, List.map_cons, List.prod_cons]
    apply Nat.Coprime.mul_right
    · rcases hc with hc | hc <;> rw [hc] <;> decide
    · exact ih ht

theorem detect_subst (p s : List Ch) (x y : Ch) (hw : x.w = y.w) (hs : W10 s)
    (hx : x.i < 36) (hy : y.i < 36) (hne : x.i ≠ y.i)
    (h1 : num (p ++ x :: s) % 97 = 1) : num (p ++ y :: s) % 97 ≠ 1 := by
  intro h2
  have hsub := num_subst p s x y hw
  have hcop := pw_coprime s hs
  have key : ∀ a b : ℕ, a < 36 → b < 36 → a < b → ∀ A B : ℕ, A % 97 = 1 → B % 97 = 1 →
      A + b * pw s = B + a * pw s → False := by
    intro a b ha hb hab A B hA hB heq
    have hb' : b = a + (b - a) := by omega
    have : A + (b - a) * pw s = B := by
      have : A + (a + (b - a)) * pw s = B + a * pw s := by rw [← hb']; exact heq
      nlinarith [this]
    have hmod : (A + (b - a) * pw s) % 97 = B % 97 := by rw [this]
    have hd : ((b - a) * pw s) % 97 = 0 := by omega
    have hdvd : 97 ∣ (b - a) * pw s := Nat.dvd_of_mod_eq_zero hd
    have hdvd2 : 97 ∣ (b - a) := (Nat.Coprime.dvd_mul_right hcop).mp hdvd
    have : 97 ≤ b - a := Nat.le_of_dvd (by omega) hdvd2
    omega
  rcases Nat.lt_or_gt_of_ne hne with hlt | hgt
  · exact key x.i y.i hx hy hlt _ _ h1 h2 hsub
  · exact key y.i x.i hy hx hgt _ _ h2 h1 hsub.symm

/-! ### adjacent transposition of two characters of equal width -/

theorem num_swap (p s : List Ch) (x y : Ch) (hw : x.w = y.w) :
    num (p ++ x :: y :: s) + y.i * (x.w * pw s) + x.i * pw s
      = num (p ++ y :: x :: s) + x.i * (x.w * pw s) + y.i * pw s := by
  have e1 : p ++ x :: y :: s = p ++ ([x] ++ ([y] ++ s)) := by simp
  have e2 : p ++ y :: x :: s = p ++ ([y] ++ ([x] ++ s)) := by simp
  rw [e1, e2]
  simp only [num_append, pw_append, num_single, pw_single, hw]
  ring

theorem not_dvd_mul_of_lt (d c : ℕ) (hd0 : 0 < d) (hd : d < 97) (hc : ¬ 97 ∣ c) : ¬ 97 ∣ d * c := by
  intro h
  have hp : Nat.Prime 97 := by norm_num
  rcases (Nat.Prime.dvd_mul hp).mp h with h | h
  · exact absurd (Nat.le_of_dvd hd0 h) (by omega)
  · exact hc h

/-- generic core: A ≡ B ≡ 1 and A + b*c*P = B + a*c*P with a<b<97, 97 ∤ c, gcd(97,P)=1 is impossible -/
theorem core (P c a b A B : ℕ) (hcop : Nat.Coprime 97 P) (hc : ¬ 97 ∣ c) (hab : a < b) (hb : b < 97)
    (hA : A % 97 = 1) (hB : B % 97 = 1) (heq : A + b * (c * P) = B + a * (c * P)) : False := by
  have hb' : b = a + (b - a) := by omega
  have h1 : A + (b - a) * (c * P) = B := by
    have : A + (a + (b - a)) * (c * P) = B + a * (c * P) := by rw [← hb']; exact heq
    nlinarith [this]
  have hd : ((b - a) * (c * P)) % 97 = 0 := by
    have : (A + (b - a) * (c * P)) % 97 = B % 97 := by rw [h1]
    omega
  have hdvd : 97 ∣ ((b - a) * c) * P := by
    have := Nat.dvd_of_mod_eq_zero hd
    rwa [← mul_assoc] at this
  have hdvd2 : 97 ∣ (b - a) * c := (Nat.Coprime.dvd_mul_right hcop).mp hdvd
  exact not_dvd_mul_of_lt (b - a) c (by omega) (by omega) hc hdvd2

theorem detect_adjacent_swap (p s : List Ch) (x y : Ch) (hw : x.w = y.w)
    (hxw : x.w = 10 ∨ x.w = 100) (hs : W10 s) (hx : x.i < 36) (hy : y.i < 36) (hne : x.i ≠ y.i)
    (h1 : num (p ++ x :: y :: s) % 97 = 1) : num (p ++ y :: x :: s) % 97 ≠ 1 := by
  intro h2
  have hsw := num_swap p s x y hw
  have hcop := pw_coprime s hs
  obtain ⟨c, hc, hcw⟩ : ∃ c, ¬ 97 ∣ c ∧ x.w = c + 1 := by
    rcases hxw with h | h
    · exact ⟨9, by decide, by omega⟩
    · exact ⟨99, by decide, by omega⟩
  -- rewrite the swap identity as  A + b*(c*P) = B + a*(c*P)
  have hsw' : num (p ++ x :: y :: s) + y.i * (c * pw s) = num (p ++ y :: x :: s) + x.i * (c * pw s) := by
    rw [hcw] at hsw
    nlinarith [hsw]
  rcases Nat.lt_or_gt_of_ne hne with hlt | hgt
  · exact core (pw s) c x.i y.i _ _ hcop hc hlt (by omega) h1 h2 hsw'
  · exact core (pw s) c y.i x.i _ _ hcop hc hgt (by omega) h2 h1 hsw'.symm

/-! ### transposition across the rearrangement seam: first and last character, both digits -/

theorem ten_pow_sub_one (m : ℕ) (h1 : 1 ≤ m) (h2 : m ≤ 95) : ¬ 97 ∣ 10 ^ m - 1 := by
  interval_cases m <;> norm_num

theorem pw_is_pow (l : List Ch) (h : W10 l) : ∃ k, k ≤ 2 * l.length ∧ pw l = 10 ^ k := by
  induction l with
  | nil => exact ⟨0, by simp, by simp [pw]⟩
  | cons c t ih =>
    have hc := h c (by simp)
    have ht : W10 t := fun d hd => h d (by simp [hd])
    obtain ⟨k, hk, hp⟩ := ih ht
    rw [pw_cons, hp]
    rcases hc with hc | hc
    · exact ⟨k + 1, by simp; omega, by rw [hc]; ring⟩
    · exact ⟨k + 2, by simp; omega, by rw [hc]; ring⟩

theorem num_ends (x y : Ch) (mid : List Ch) (hy : y.w = 10) :
    num (x :: mid ++ [y]) = (x.i * pw mid + num mid) * 10 + y.i := by
  have e : x :: mid ++ [y] = ([x] ++ mid) ++ [y] := by simp
  rw [e, num_append, num_append, num_single, num_single, pw_single, hy]

theorem detect_wrap_swap (x y : Ch) (mid : List Ch) (hxw : x.w = 10) (hyw : y.w = 10)
    (hm : W10 mid) (hlen : mid.length ≤ 47) (hx : x.i < 10) (hy : y.i < 10) (hne : x.i ≠ y.i)
    (h1 : num (x :: mid ++ [y]) % 97 = 1) : num (y :: mid ++ [x]) % 97 ≠ 1 := by
  intro h2
  rw [num_ends x y mid hyw] at h1
  rw [num_ends y x mid hxw] at h2
  obtain ⟨k, hk, hp⟩ := pw_is_pow mid hm
  have hnd : ¬ 97 ∣ 10 ^ (k + 1) - 1 := ten_pow_sub_one (k + 1) (by omega) (by omega)
  have hpos : 1 ≤ 10 ^ (k + 1) := Nat.one_le_pow _ _ (by norm_num)
  obtain ⟨c, hc⟩ : ∃ c, 10 ^ (k + 1) = c + 1 := ⟨10 ^ (k + 1) - 1, by omega⟩
  have hcnd : ¬ 97 ∣ c := by
    have : c = 10 ^ (k + 1) - 1 := by omega
    rw [this]; exact hnd
  have hpw : pw mid * 10 = c + 1 := by rw [hp, ← hc]; ring
  have one_cop : Nat.Coprime 97 1 := by simp
  -- A + b*(c*1) = B + a*(c*1)
  have heq : (x.i * pw mid + num mid) * 10 + y.i + y.i * (c * 1)
           = (y.i * pw mid + num mid) * 10 + x.i + x.i * (c * 1) := by
    have e1 : x.i * pw mid * 10 = x.i * (c + 1) := by rw [mul_assoc, hpw]
    have e2 : y.i * pw mid * 10 = y.i * (c + 1) := by rw [mul_assoc, hpw]
    nlinarith [e1, e2]
  rcases Nat.lt_or_gt_of_ne hne with hlt | hgt
  · exact core 1 c x.i y.i _ _ one_cop hcnd hlt (by omega) h1 h2 heq
  · exact core 1 c y.i x.i _ _ one_cop hcnd hgt (by omega) h2 h1 heq.symm

/-! ## IBAN-level corollaries (C03)

An IBAN text is `cc ++ [d1, d2] ++ bban`; the number the code checks is `num (bban ++ cc ++ [d1, d2])`
(obligation "accepted => Num(bban + cc + dd) mod 97 = 1" of the pyvc IBAN tasks, proved for every country).
A character is `Valid` when it is a digit (width 10, idx < 10) or an upper-case letter (width 100, 10 <= idx < 36);
"same kind" = same width.  Position map of a mutation at IBAN position i:
  i >= 4      : p = bban[0 .. i-4),  s = bban(i-4 .. L),  h = cc ++ [d1, d2]
  i = 2       : p = bban ++ cc,      s = [d2],            h = []
  i = 3       : p = bban ++ cc ++ [d1], s = [],           h = []
and of an adjacent transposition i | i+1:
  i >= 4      : p, s inside the BBAN as above, h = cc ++ [d1, d2]
  2 | 3       : p = bban ++ cc, s = [], h = []
  0 | 1       : p = bban, s = [d1, d2], h = []
  3 | 4       : the two characters are the last and the first of the rearranged list: `iban_swap_seam`
  1 | 2       : a letter and a digit - not of the same kind. -/

def Valid (c : Ch) : Prop := (c.w = 10 ∧ c.i < 10) ∨ (c.w = 100 ∧ 10 ≤ c.i ∧ c.i < 36)
def AllValid (l : List Ch) : Prop := ∀ c ∈ l, Valid c

theorem valid_lt36 (c : Ch) (h : Valid c) : c.i < 36 := by
  rcases h with ⟨_, h⟩ | ⟨_, _, h⟩ <;> omega

theorem valid_w (c : Ch) (h : Valid c) : c.w = 10 ∨ c.w = 100 := by
  rcases h with ⟨h, _⟩ | ⟨h, _⟩
  · exact Or.inl h
  · exact Or.inr h

theorem W10_of_allValid (l : List Ch) (h : AllValid l) : W10 l := fun c hc => valid_w c (h c hc)

theorem allValid_append (a b : List Ch) (ha : AllValid a) (hb : AllValid b) : AllValid (a ++ b) := by
  intro c hc
  rcases List.mem_append.mp hc with h | h
  · exact ha c h
  · exact hb c h

/-- replacing one character by a different one of the same kind is always detected -/
theorem iban_subst (h p s : List Ch) (x y : Ch) (hs : AllValid s) (hh : AllValid h)
    (hx : Valid x) (hy : Valid y) (hw : x.w = y.w) (hne : x.i ≠ y.i)
    (h1 : num ((p ++ x :: s) ++ h) % 97 = 1) : num ((p ++ y :: s) ++ h) % 97 ≠ 1 := by
  have e1 : (p ++ x :: s) ++ h = p ++ x :: (s ++ h) := by simp
  have e2 : (p ++ y :: s) ++ h = p ++ y :: (s ++ h) := by simp
  rw [e1] at h1
  rw [e2]
  exact detect_subst p (s ++ h) x y hw (W10_of_allValid _ (allValid_append s h hs hh))
    (valid_lt36 x hx) (valid_lt36 y hy) hne h1

/-- swapping two adjacent different characters of the same kind is always detected -/
theorem iban_swap_adjacent (h p s : List Ch) (x y : Ch) (hs : AllValid s) (hh : AllValid h)
    (hx : Valid x) (hy : Valid y) (hw : x.w = y.w) (hne : x.i ≠ y.i)
    (h1 : num ((p ++ x :: y :: s) ++ h) % 97 = 1) : num ((p ++ y :: x :: s) ++ h) % 97 ≠ 1 := by
  have e1 : (p ++ x :: y :: s) ++ h = p ++ x :: y :: (s ++ h) := by simp
  have e2 : (p ++ y :: x :: s) ++ h = p ++ y :: x :: (s ++ h) := by simp
  rw [e1] at h1
  rw [e2]
  exact detect_adjacent_swap p (s ++ h) x y hw (valid_w x hx)
    (W10_of_allValid _ (allValid_append s h hs hh)) (valid_lt36 x hx) (valid_lt36 y hy) hne h1

/-- swapping the second check digit with the first BBAN character (both digits): IBAN positions 3 | 4.
`first` is the first BBAN character, `last` the second check digit, `mid` = rest of the BBAN ++ cc ++ [d1];
an accepted IBAN has at most 34 characters, so `mid` has at most 32. -/
theorem iban_swap_seam (first last : Ch) (mid : List Ch) (hm : AllValid mid) (hlen : mid.length ≤ 47)
    (hf : first.w = 10 ∧ first.i < 10) (hl : last.w = 10 ∧ last.i < 10) (hne : first.i ≠ last.i)
    (h1 : num (first :: mid ++ [last]) % 97 = 1) : num (last :: mid ++ [first]) % 97 ≠ 1 :=
  detect_wrap_swap first last mid hf.1 hl.1 (W10_of_allValid _ hm) hlen hf.2 hl.2 hne h1

/-! ## Position-level statements over the IBAN text itself (`rearr` = what the code feeds to numerify) -/

def rearr (l : List Ch) : List Ch := l.drop 4 ++ l.take 4

theorem decomp (l : List Ch) (i : ℕ) (h : i < l.length) :
    l = l.take i ++ l[i] :: l.drop (i + 1) := by
  conv_lhs => rw [← List.take_append_drop i l]
  rw [List.drop_eq_getElem_cons h]

theorem rearr_bban (A B : List Ch) (x : Ch) (hA : 4 ≤ A.length) :
    rearr (A ++ x :: B) = (A.drop 4 ++ x :: B) ++ A.take 4 := by
  unfold rearr
  rw [List.drop_append_of_le_length hA, List.take_append_of_le_length hA]

theorem allValid_take (l : List Ch) (n : ℕ) (h : AllValid l) : AllValid (l.take n) :=
  fun c hc => h c (List.mem_of_mem_take hc)

theorem allValid_drop (l : List Ch) (n : ℕ) (h : AllValid l) : AllValid (l.drop n) :=
  fun c hc => h c (List.mem_of_mem_drop hc)

/-- a same-kind substitution at any BBAN position (i ≥ 4) of a text whose rearranged number is ≡ 1 is detected -/
theorem iban_subst_at_bban (l : List Ch) (i : ℕ) (y : Ch) (hv : AllValid l) (hy : Valid y)
    (hi4 : 4 ≤ i) (hil : i < l.length) (hw : l[i].w = y.w) (hne : l[i].i ≠ y.i)
    (h1 : num (rearr l) % 97 = 1) : num (rearr (l.set i y)) % 97 ≠ 1 := by
  have hA : 4 ≤ (l.take i).length := by simp [List.length_take]; omega
  have hd := decomp l i hil
  have hx : Valid l[i] := hv _ (List.getElem_mem hil)
  rw [List.set_eq_take_cons_drop y hil, rearr_bban _ _ _ hA]
  rw [hd, rearr_bban _ _ _ hA] at h1
  exact iban_subst _ _ _ _ _ (allValid_drop l (i + 1) hv) (allValid_take _ 4 (allValid_take l i hv)) hx hy hw hne h1

theorem rearr_head1 (A B : List Ch) (x : Ch) (hA : A.length < 4) :
    rearr (A ++ x :: B) = (B.drop (3 - A.length) ++ A) ++ x :: B.take (3 - A.length) := by
  unfold rearr
  rw [List.drop_append, List.take_append]
  have h1 : A.drop 4 = [] := List.drop_eq_nil_of_le (by omega)
  have h2 : A.take 4 = A := List.take_of_length_le (by omega)
  have h3 : 4 - A.length = (3 - A.length) + 1 := by omega
  rw [h1, h2, h3, List.drop_succ_cons, List.take_succ_cons]
  simp

theorem rearr_head2 (A B : List Ch) (x y : Ch) (hA : A.length ≤ 2) :
    rearr (A ++ x :: y :: B) = (B.drop (2 - A.length) ++ A) ++ x :: y :: B.take (2 - A.length) := by
  unfold rearr
  rw [List.drop_append, List.take_append]
  have h1 : A.drop 4 = [] := List.drop_eq_nil_of_le (by omega)
  have h2 : A.take 4 = A := List.take_of_length_le (by omega)
  have h3 : 4 - A.length = (2 - A.length) + 1 + 1 := by omega
  rw [h1, h2, h3, List.drop_succ_cons, List.drop_succ_cons, List.take_succ_cons, List.take_succ_cons]
  simp

/-- a same-kind substitution at a check-digit position (i = 2 or 3; indeed any i < 4) is detected -/
theorem iban_subst_at_head (l : List Ch) (i : ℕ) (y : Ch) (hv : AllValid l) (hy : Valid y)
    (hi4 : i < 4) (hil : i < l.length) (hw : l[i].w = y.w) (hne : l[i].i ≠ y.i)
    (h1 : num (rearr l) % 97 = 1) : num (rearr (l.set i y)) % 97 ≠ 1 := by
  have hA : (l.take i).length < 4 := by simp [List.length_take]; omega
  have hd := decomp l i hil
  have hx : Valid l[i] := hv _ (List.getElem_mem hil)
  rw [List.set_eq_take_cons_drop y hil, rearr_head1 _ _ _ hA]
  rw [hd, rearr_head1 _ _ _ hA] at h1
  have e : ∀ (P S : List Ch) (z : Ch), P ++ z :: S = (P ++ z :: S) ++ [] := by simp
  rw [e] at h1
  rw [e]
  exact iban_subst [] _ _ _ _ (allValid_take _ _ (allValid_drop l (i + 1) hv)) (by intro c hc; simp at hc) hx hy hw hne h1

/-- THE substitution statement of C03: any position i ≥ 2 (indeed any position) -/
theorem iban_subst_at (l : List Ch) (i : ℕ) (y : Ch) (hv : AllValid l) (hy : Valid y)
    (hil : i < l.length) (hw : l[i].w = y.w) (hne : l[i].i ≠ y.i)
    (h1 : num (rearr l) % 97 = 1) : num (rearr (l.set i y)) % 97 ≠ 1 := by
  by_cases h : i < 4
  · exact iban_subst_at_head l i y hv hy h hil hw hne h1
  · exact iban_subst_at_bban l i y hv hy (by omega) hil hw hne h1

/-- adjacent transposition at position |A| | |A|+1, any position except the seam 3 | 4 -/
theorem iban_swap_at (A B : List Ch) (x y : Ch) (hv : AllValid (A ++ x :: y :: B))
    (hw : x.w = y.w) (hne : x.i ≠ y.i) (hA : A.length ≠ 3)
    (h1 : num (rearr (A ++ x :: y :: B)) % 97 = 1) : num (rearr (A ++ y :: x :: B)) % 97 ≠ 1 := by
  have hx : Valid x := hv x (by simp)
  have hy : Valid y := hv y (by simp)
  have hAv : AllValid A := fun c hc => hv c (by simp [hc])
  have hBv : AllValid B := fun c hc => hv c (by simp [hc])
  by_cases h4 : 4 ≤ A.length
  · rw [rearr_bban A (y :: B) x h4] at h1
    rw [rearr_bban A (x :: B) y h4]
    exact iban_swap_adjacent _ _ _ _ _ hBv (allValid_take A 4 hAv) hx hy hw hne h1
  · have h2 : A.length ≤ 2 := by omega
    rw [rearr_head2 A B x y h2] at h1
    rw [rearr_head2 A B y x h2]
    have e : ∀ (P S : List Ch) (u v : Ch), P ++ u :: v :: S = (P ++ u :: v :: S) ++ [] := by simp
    rw [e] at h1
    rw [e]
    exact iban_swap_adjacent [] _ _ _ _ (allValid_take B _ hBv) (by intro c hc; simp at hc) hx hy hw hne h1

/-- adjacent transposition across the seam: second check digit | first BBAN character (positions 3 | 4) -/
theorem iban_swap_at_seam (A B : List Ch) (x y : Ch) (hv : AllValid (A ++ x :: y :: B)) (hA : A.length = 3)
    (hx : x.w = 10 ∧ x.i < 10) (hy : y.w = 10 ∧ y.i < 10) (hne : x.i ≠ y.i) (hlen : B.length + 3 ≤ 47)
    (h1 : num (rearr (A ++ x :: y :: B)) % 97 = 1) : num (rearr (A ++ y :: x :: B)) % 97 ≠ 1 := by
  have hAv : AllValid A := fun c hc => hv c (by simp [hc])
  have hBv : AllValid B := fun c hc => hv c (by simp [hc])
  have r1 : ∀ (u v : Ch), rearr (A ++ u :: v :: B) = v :: (B ++ A) ++ [u] := by
    intro u v
    have := rearr_head1 A (v :: B) u (by omega)
    rw [this, hA]
    simp
  rw [r1 x y] at h1
  rw [r1 y x]
  exact iban_swap_seam y x (B ++ A) (allValid_append B A hBv hAv) (by simp [hA]; omega) hy hx (Ne.symm hne) h1
