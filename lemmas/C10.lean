import Mathlib.Data.List.Basic
import Mathlib.Tactic

/-! # C10: Clean is invariant under whitespace insertion and ASCII case change, and idempotent

`Clean t = concat (Up c | c ∈ t, c ∉ WS)` for an arbitrary whitespace predicate `ws` and per-character map `up`
(the facts about the real `\s` and `str.upper` are enumerated in contracts/unicode_facts.py). -/

variable {α : Type}

def clean (ws : α → Bool) (up : α → List α) (l : List α) : List α :=
  (l.filter (fun c => !ws c)).flatMap up

theorem clean_append (ws : α → Bool) (up : α → List α) (a b : List α) :
    clean ws up (a ++ b) = clean ws up a ++ clean ws up b := by
  simp [clean, List.filter_append, List.flatMap_append]

theorem clean_single_ws (ws : α → Bool) (up : α → List α) (w : α) (hw : ws w = true) :
    clean ws up [w] = [] := by
  simp [clean, hw]

theorem clean_single (ws : α → Bool) (up : α → List α) (x : α) (hx : ws x = false) :
    clean ws up [x] = up x := by
  simp [clean, hx]

/-- inserting a whitespace character anywhere does not change the cleaned text -/
theorem clean_insert_ws (ws : α → Bool) (up : α → List α) (a b : List α) (w : α) (hw : ws w = true) :
    clean ws up (a ++ w :: b) = clean ws up (a ++ b) := by
  have e : a ++ w :: b = a ++ ([w] ++ b) := by simp
  rw [e, clean_append, clean_append, clean_single_ws ws up w hw, clean_append]
  simp

/-- replacing a character by one with the same upper-casing (a <-> A) does not change the cleaned text -/
theorem clean_case (ws : α → Bool) (up : α → List α) (a b : List α) (x y : α)
    (hx : ws x = false) (hy : ws y = false) (h : up x = up y) :
    clean ws up (a ++ x :: b) = clean ws up (a ++ y :: b) := by
  have e1 : a ++ x :: b = a ++ ([x] ++ b) := by simp
  have e2 : a ++ y :: b = a ++ ([y] ++ b) := by simp
  rw [e1, e2, clean_append, clean_append, clean_append, clean_append, clean_single ws up x hx,
      clean_single ws up y hy, h]

/-- a text all of whose characters are fixed points (not whitespace, `up d = [d]`) is its own cleaning -/
theorem clean_of_fix (ws : α → Bool) (up : α → List α) (l : List α)
    (h : ∀ d ∈ l, ws d = false ∧ up d = [d]) : clean ws up l = l := by
  induction l with
  | nil => simp [clean]
  | cons c t ih =>
    have hc := h c (by simp)
    have ht : ∀ d ∈ t, ws d = false ∧ up d = [d] := fun d hd => h d (by simp [hd])
    have e : c :: t = [c] ++ t := by simp
    rw [e, clean_append, clean_single ws up c hc.1, hc.2, ih ht]

theorem mem_clean (ws : α → Bool) (up : α → List α) (l : List α) (d : α) (hd : d ∈ clean ws up l) :
    ∃ c ∈ l, ws c = false ∧ d ∈ up c := by
  simp only [clean, List.mem_flatMap, List.mem_filter] at hd
  obtain ⟨c, ⟨hc, hws⟩, hdc⟩ := hd
  exact ⟨c, hc, by simpa using hws, hdc⟩

/-- idempotence, from fact F2 (every character of `up c`, `c` not whitespace, is a fixed point) -/
theorem clean_idem (ws : α → Bool) (up : α → List α) (l : List α)
    (hF2 : ∀ c, ws c = false → ∀ d ∈ up c, ws d = false ∧ up d = [d]) :
    clean ws up (clean ws up l) = clean ws up l := by
  apply clean_of_fix
  intro d hd
  obtain ⟨c, _, hws, hdc⟩ := mem_clean ws up l d hd
  exact hF2 c hws d hdc
