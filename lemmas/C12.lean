/-
  C12 — the grouping meta-theorem of pyvc/agroup.py, machine-checked.

  registry.build_index(accumulate=True) runs, on an initially empty defaultdict(list),
      for entry in base:  (body: at most one `data[k(entry)].append(entry)`, taken iff phi(entry))
  The engine proves the per-element contract (what phi and k are) from the real loop body for ONE generic
  element; the generalisation to the whole list is this induction.  The accumulator is modelled as a total
  function  κ → List α  with [] for "key absent" (a defaultdict(list) slot only comes into being by the append,
  so present <-> non-empty: `group_loop_present`).
-/
import Mathlib

namespace C12

variable {α κ : Type} [DecidableEq κ]

/-- one iteration: `if phi e: data[k e].append(e)` -/
def step (phi : α → Bool) (k : α → κ) (data : κ → List α) (e : α) : κ → List α :=
  if phi e then fun K => if K = k e then data K ++ [e] else data K else data

/-- the whole loop, started from the accumulator `init` -/
def loopFrom (phi : α → Bool) (k : α → κ) (init : κ → List α) (base : List α) : κ → List α :=
  base.foldl (step phi k) init

/-- the loop on the empty accumulator -/
def groupLoop (phi : α → Bool) (k : α → κ) (base : List α) : κ → List α :=
  loopFrom phi k (fun _ => []) base

/-- the specification: order-preserving grouping of the included elements -/
def groupSpec (phi : α → Bool) (k : α → κ) (base : List α) (K : κ) : List α :=
  base.filter (fun e => phi e && decide (k e = K))

theorem loopFrom_eq (phi : α → Bool) (k : α → κ) (base : List α) :
    ∀ (init : κ → List α) (K : κ), loopFrom phi k init base K = init K ++ groupSpec phi k base K := by
  induction base with
  | nil => intro init K; simp [loopFrom, groupSpec]
  | cons e rest ih =>
    intro init K
    have h := ih (step phi k init e) K
    simp only [loopFrom, List.foldl_cons] at h ⊢
    rw [h]
    unfold step groupSpec
    by_cases hp : phi e = true
    · by_cases hk : K = k e
      · subst hk; simp [hp]
      · have hk' : ¬ k e = K := fun h' => hk h'.symm
        simp [hp, hk, hk']
    · simp [hp]

/-- META-THEOREM: the loop leaves, under every key, exactly the included elements with that key, in list order -/
theorem group_loop (phi : α → Bool) (k : α → κ) (base : List α) (K : κ) :
    groupLoop phi k base K = groupSpec phi k base K := by
  simp [groupLoop, loopFrom_eq]

/-- a key is present (its slot non-empty) iff some included element carries it -/
theorem group_loop_present (phi : α → Bool) (k : α → κ) (base : List α) (K : κ) :
    groupLoop phi k base K ≠ [] ↔ ∃ e ∈ base, phi e = true ∧ k e = K := by
  rw [group_loop]
  unfold groupSpec
  constructor
  · intro h
    obtain ⟨e, he⟩ := List.exists_mem_of_ne_nil _ h
    rw [List.mem_filter] at he
    refine ⟨e, he.1, ?_⟩
    simpa using he.2
  · rintro ⟨e, he, hp, hk⟩ hnil
    have : e ∈ base.filter (fun e => phi e && decide (k e = K)) := by
      rw [List.mem_filter]; exact ⟨he, by simp [hp, hk]⟩
    rw [hnil] at this
    exact absurd this (List.not_mem_nil)

/-- every element of a slot is an included element of the list with that key (no foreign entry) -/
theorem group_loop_sound (phi : α → Bool) (k : α → κ) (base : List α) (K : κ) (e : α)
    (h : e ∈ groupLoop phi k base K) : e ∈ base ∧ phi e = true ∧ k e = K := by
  rw [group_loop] at h
  unfold groupSpec at h
  rw [List.mem_filter] at h
  exact ⟨h.1, by simpa using h.2⟩

/-- the slots are sublists of the list (relative order kept, nothing duplicated) -/
theorem group_loop_sublist (phi : α → Bool) (k : α → κ) (base : List α) (K : κ) :
    (groupLoop phi k base K).Sublist base := by
  rw [group_loop]; exact List.filter_sublist

end C12
