"""Value domain of the pyvc symbolic interpreter."""
from __future__ import annotations

import z3


class SInt:
    __slots__ = ("t",)

    def __init__(self, t):
        self.t = t if z3.is_expr(t) else z3.IntVal(t)

    def __repr__(self):
        return f"SInt({self.t})"


class SBool:
    __slots__ = ("t",)

    def __init__(self, t):
        self.t = t

    def __repr__(self):
        return f"SBool({self.t})"


class SStr:
    """string of concrete length; chars are z3 Int code points"""
    __slots__ = ("chars",)

    def __init__(self, chars):
        self.chars = [c if z3.is_expr(c) else z3.IntVal(c) for c in chars]

    def __len__(self):
        return len(self.chars)

    def __repr__(self):
        return f"SStr{self.chars}"


class Dec:
    """decimal rendering of a non-negative int term (piece of an SDecStr)"""
    __slots__ = ("v", "bound")

    def __init__(self, v, bound=None):
        self.v = v          # z3 Int term, >= 0
        self.bound = bound  # exclusive upper bound known for v (python int) or None


class SDecStr:
    """concatenation of pieces: z3 char terms and Dec pieces (strings whose length depends on values)"""
    __slots__ = ("pieces",)

    def __init__(self, pieces):
        self.pieces = list(pieces)

    def __repr__(self):
        return f"SDecStr({len(self.pieces)} pieces)"


class SFn:
    """string of symbolic length: length term + `at` closure (index term -> char term)"""
    def __init__(self, ln, at, name):
        self.len, self.at, self.name = ln, at, name
        self.all_fix = False        # every character is Fix (contracts.common)
        self.upper_closed = False   # upper() is the identity on it

    def __repr__(self):
        return f"SFn({self.name})"


class SOpaqueStr:
    """opaque string token: only the external operations applied to it are recorded (structural contracts)"""

    def __init__(self, term):
        self.term = term

    def __repr__(self):
        return f"SOpaqueStr({self.term})"


class SObj:
    """instance created during a symbolic run: live class + optional string payload; fields live in the heap"""

    def __init__(self, cls, payload=None):
        self.cls, self.payload = cls, payload

    def __repr__(self):
        return f"SObj<{self.cls.__name__}>"


class SuperProxy:
    def __init__(self, cls, obj):
        self.cls, self.obj = cls, obj


class BoundFn:
    def __init__(self, fn, self_obj, defcls):
        self.fn, self.self_obj, self.defcls = fn, self_obj, defcls


class Closure:
    """nested def / lambda"""

    def __init__(self, node, frame, name):
        self.node, self.frame, self.name = node, frame, name


class SCycle:
    def __init__(self, items):
        self.items = list(items)


class Special:
    """tagged pseudo-callable (str method, regex method, ...)"""

    def __init__(self, kind, *data):
        self.kind, self.data = kind, data


class Raised(Exception):
    def __init__(self, exc):
        self.exc = exc


class Unsupported(Exception):
    pass


class FrameViolation(Unsupported):
    """the code writes to an object that outlives the call (C14/C15 frame obligation)"""


class Infeasible(Exception):
    pass


class MergeAbort(Exception):
    pass


class ReturnSignal(Exception):
    def __init__(self, v):
        self.v = v


class ContinueSignal(Exception):
    pass


class BreakSignal(Exception):
    pass


SYM = (SInt, SBool, SStr, SDecStr, SFn, SOpaqueStr)


def is_sym(v):
    return isinstance(v, SYM)


def deep_sym(v, depth=0):
    if is_sym(v) or isinstance(v, SObj):
        return True
    if depth < 3 and isinstance(v, (list, tuple)):
        return any(deep_sym(x, depth + 1) for x in v)
    if depth < 3 and isinstance(v, dict):
        return any(deep_sym(x, depth + 1) for x in v.values())
    return False


def simp(t):
    return z3.simplify(t)


def concretize(v):
    """python value if the term is a literal, else the (simplified) symbolic value"""
    if isinstance(v, SInt):
        t = simp(v.t)
        return t.as_long() if z3.is_int_value(t) else v      # structure of non-literals is preserved (canon)
    if isinstance(v, SBool):
        t = simp(v.t)
        if z3.is_true(t):
            return True
        if z3.is_false(t):
            return False
        return v
    if isinstance(v, SStr):
        cs = [c if z3.is_int_value(c) else simp(c) for c in v.chars]
        if all(z3.is_int_value(c) for c in cs):
            return "".join(chr(c.as_long()) for c in cs)
        return SStr([c if z3.is_int_value(c) else o for c, o in zip(cs, v.chars)])
    return v


def lift_int(v):
    if isinstance(v, SInt):
        return v.t
    if isinstance(v, SBool):
        return z3.If(v.t, 1, 0)
    if isinstance(v, bool):
        return z3.IntVal(int(v))
    if isinstance(v, int):
        return z3.IntVal(v)
    raise Unsupported(f"not an int: {v!r}")


def lift_bool(v):
    if isinstance(v, SBool):
        return v.t
    if isinstance(v, bool):
        return z3.BoolVal(v)
    raise Unsupported(f"not a bool: {v!r}")


def payload(v):
    while isinstance(v, SObj) and v.payload is not None:
        v = v.payload
    return v


def lift_str(v):
    v = payload(v)
    if isinstance(v, SStr):
        return v
    if isinstance(v, str):
        return SStr([ord(c) for c in v])
    raise Unsupported(f"not a fixed-length str: {v!r}")


def is_strlike(v):
    v = payload(v)
    return isinstance(v, (str, SStr, SDecStr, SFn, SOpaqueStr))
