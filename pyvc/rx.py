"""Regular expressions as formulas.

`re` is outside /repo: its semantics is an ASSUMED contract, made explicit here: the live pattern
(pattern.pattern, pattern.flags) is parsed by CPython's own re._parser and compiled into a z3 formula over a
vector of code-point terms.  match (prefix), fullmatch and `$` (also before a final \\n) follow CPython.
\\d and \\s without re.ASCII are the code-point sets enumerated from the running interpreter.
The compiler is differential-tested against CPython's re on every run (selftest()).
"""
from __future__ import annotations

import functools
import re
from re import _constants as C
from re import _parser

import z3


def _ranges(pred):
    out = []
    start = None
    for cp in range(0x110000):
        if pred(chr(cp)):
            if start is None:
                start = cp
        elif start is not None:
            out.append((start, cp - 1))
            start = None
    if start is not None:
        out.append((start, 0x10FFFF))
    return out


@functools.lru_cache(None)
def uni_digit():
    d = re.compile(r"\d")
    return tuple(_ranges(lambda c: d.match(c) is not None))


@functools.lru_cache(None)
def uni_space():
    s = re.compile(r"\s")
    return tuple(_ranges(lambda c: s.match(c) is not None))


ASCII_SPACE = ((9, 13), (32, 32))


def in_ranges(c, rs):
    return z3.Or(*[z3.And(c >= a, c <= b) if a != b else c == a for a, b in rs])


def cls_cond(items, c, ascii_):
    conds = []
    neg = False
    for op, arg in items:
        if op is C.NEGATE:
            neg = True
        elif op is C.LITERAL:
            conds.append(c == arg)
        elif op is C.RANGE:
            conds.append(z3.And(c >= arg[0], c <= arg[1]))
        elif op is C.CATEGORY:
            if arg is C.CATEGORY_DIGIT:
                conds.append(z3.And(c >= 48, c <= 57) if ascii_ else in_ranges(c, uni_digit()))
            elif arg is C.CATEGORY_SPACE:
                conds.append(in_ranges(c, ASCII_SPACE) if ascii_ else in_ranges(c, uni_space()))
            else:
                raise NotImplementedError(f"regex category {arg}")
        else:
            raise NotImplementedError(f"regex class item {op}")
    r = z3.Or(*conds) if conds else z3.BoolVal(False)
    return z3.Not(r) if neg else r


def _step(node, starts, chars, ascii_, icase):
    op, arg = node
    n = len(chars)
    out = {}

    def add(p, c):
        out[p] = z3.Or(out[p], c) if p in out else c

    if icase:
        raise NotImplementedError("IGNORECASE")
    if op is C.LITERAL:
        for p, c in starts.items():
            if p < n:
                add(p + 1, z3.And(c, chars[p] == arg))
    elif op is C.NOT_LITERAL:
        for p, c in starts.items():
            if p < n:
                add(p + 1, z3.And(c, chars[p] != arg))
    elif op is C.ANY:
        for p, c in starts.items():
            if p < n:
                add(p + 1, z3.And(c, chars[p] != 10))
    elif op is C.IN:
        for p, c in starts.items():
            if p < n:
                add(p + 1, z3.And(c, cls_cond(arg, chars[p], ascii_)))
    elif op is C.AT:
        for p, c in starts.items():
            if arg is C.AT_BEGINNING or arg is C.AT_BEGINNING_STRING:
                if p == 0:
                    add(p, c)
            elif arg is C.AT_END:
                if p == n:
                    add(p, c)
                elif p == n - 1:
                    add(p, z3.And(c, chars[p] == 10))
            elif arg is C.AT_END_STRING:
                if p == n:
                    add(p, c)
            else:
                raise NotImplementedError(f"regex anchor {arg}")
    elif op is C.SUBPATTERN:
        return _seq(arg[3], starts, chars, ascii_, icase)
    elif op is C.BRANCH:
        for alt in arg[1]:
            for p, c in _seq(alt, starts, chars, ascii_, icase).items():
                add(p, c)
    elif op in (C.MAX_REPEAT, C.MIN_REPEAT):
        lo, hi, sub = arg
        cur = dict(starts)
        k = 0
        if lo == 0:
            for p, c in cur.items():
                add(p, c)
        while cur and (hi is C.MAXREPEAT or k < hi):
            cur = _seq(sub, cur, chars, ascii_, icase)
            k += 1
            if k >= lo:
                for p, c in cur.items():
                    add(p, c)
            if k > n + 1:
                break
    else:
        raise NotImplementedError(f"regex node {op}")
    return out


def _seq(nodes, starts, chars, ascii_, icase):
    cur = starts
    for nd in nodes:
        cur = _step(nd, cur, chars, ascii_, icase)
        if not cur:
            break
    return cur


def parse(pattern: re.Pattern):
    return list(_parser.parse(pattern.pattern, pattern.flags))


def _flags(pattern):
    return bool(pattern.flags & re.ASCII), bool(pattern.flags & re.IGNORECASE)


def match_formula(pattern: re.Pattern, chars, mode="match"):
    """existence of a match of `pattern` at position 0 of the vector `chars` (mode match) / of the whole
    vector (mode fullmatch).  Only existence is modelled (the code under verification uses truthiness)."""
    ascii_, icase = _flags(pattern)
    if pattern.flags & (re.MULTILINE | re.DOTALL | re.VERBOSE):
        raise NotImplementedError("regex flags")
    ends = _seq(parse(pattern), {0: z3.BoolVal(True)}, chars, ascii_, icase)
    if mode == "fullmatch":
        ends = {p: c for p, c in ends.items() if p == len(chars)}
    return z3.Or(*ends.values()) if ends else z3.BoolVal(False)


def _max_width(nodes):
    w = 0
    for op, arg in nodes:
        if op in (C.LITERAL, C.NOT_LITERAL, C.ANY, C.IN):
            w += 1
        elif op is C.AT:
            if arg in (C.AT_END, C.AT_END_STRING):
                return None
        elif op is C.SUBPATTERN:
            s = _max_width(arg[3])
            if s is None:
                return None
            w += s
        elif op in (C.MAX_REPEAT, C.MIN_REPEAT):
            lo, hi, sub = arg
            s = _max_width(sub)
            if s is None or hi is C.MAXREPEAT:
                return None
            w += s * hi
        else:
            return None
    return w


def prefix_head(pattern: re.Pattern):
    """for a prefix match on a string of unknown length: strip the trailing nullable nodes (they can match the
    empty string, so a prefix match of the head exists iff one of the whole pattern does) and return
    (head nodes, max width of the head) or None if the head is unbounded / anchored at the end."""
    nodes = parse(pattern)
    while nodes and nodes[-1][0] in (C.MAX_REPEAT, C.MIN_REPEAT) and nodes[-1][1][0] == 0:
        nodes = nodes[:-1]
    w = _max_width(nodes)
    if w is None:
        return None
    return nodes, w


def head_match_formula(pattern, nodes, chars):
    ascii_, icase = _flags(pattern)
    ends = _seq(nodes, {0: z3.BoolVal(True)}, chars, ascii_, icase)
    return z3.Or(*ends.values()) if ends else z3.BoolVal(False)


def removal_class(pattern: re.Pattern):
    """for P.sub('', s): if P has the shape (class)+ or (class), return a predicate c -> formula telling which
    characters are removed; anything else is unsupported (None)."""
    nodes = parse(pattern)
    ascii_, icase = _flags(pattern)
    if icase or len(nodes) != 1:
        return None
    op, arg = nodes[0]
    if op in (C.MAX_REPEAT, C.MIN_REPEAT):
        lo, hi, sub = arg
        if lo != 1 or hi is not C.MAXREPEAT or len(sub) != 1:
            return None
        op, arg = sub[0]
    if op is C.IN:
        items = arg
        return lambda c: cls_cond(items, c, ascii_)
    if op is C.LITERAL:
        lit = arg
        return lambda c: c == lit
    return None


def has_negated_class(pattern: re.Pattern):
    def walk(nodes):
        for op, arg in nodes:
            if op is C.IN and any(o is C.NEGATE for o, _ in arg):
                return True
            if op is C.NOT_LITERAL or op is C.ANY:
                return True
            if op is C.SUBPATTERN and walk(arg[3]):
                return True
            if op in (C.MAX_REPEAT, C.MIN_REPEAT) and walk(arg[2]):
                return True
            if op is C.BRANCH and any(walk(a) for a in arg[1]):
                return True
        return False
    return walk(parse(pattern))


def selftest(patterns, seed=1, per_pattern=150):
    """differential test of the compiler against CPython's re; returns (cases, mismatches)"""
    import random
    rnd = random.Random(seed)
    alphabet = "AZMaz09 5-\n\t٣٠é߀Ａ１ "
    n = bad = 0
    diffs = []
    for p in patterns:
        try:
            w = _max_width([x for x in parse(p) if x[0] is not C.AT])
        except Exception:
            w = None
        lens = sorted({0, 1, 3, 4, 5, 8, 11, 12} | ({w - 1, w, w + 1} if w else set()))
        for _ in range(per_pattern):
            L = rnd.choice(lens)
            if rnd.random() < 0.6:
                s = "".join(rnd.choice("AZ09K5") for _ in range(L))
                if s and rnd.random() < 0.5:
                    i = rnd.randrange(len(s))
                    s = s[:i] + rnd.choice(alphabet) + s[i + 1:]
            else:
                s = "".join(rnd.choice(alphabet) for _ in range(L))
            for mode in ("match", "fullmatch"):
                f = match_formula(p, [z3.IntVal(ord(c)) for c in s], mode)
                got = z3.is_true(z3.simplify(f))
                exp = getattr(p, mode)(s) is not None
                n += 1
                if got != exp:
                    bad += 1
                    diffs.append((p.pattern, s, mode, got, exp))
    return n, bad, diffs
