"""Solver interface: one obligation = one query `assumptions ∧ path ∧ ¬clause`.
z3 (Python API) first; `unknown` goes to cvc5 (CLI, same SMT-LIB text).  unknown on both = undecided."""
from __future__ import annotations

import os
import shutil
import subprocess
import tempfile
import time

import z3

Z3_TIMEOUT_MS = int(os.environ.get("PYVC_Z3_TIMEOUT_MS", "15000"))
CVC5_TIMEOUT_S = int(os.environ.get("PYVC_CVC5_TIMEOUT_S", "30"))
CVC5 = shutil.which("cvc5") or "/usr/bin/cvc5"

STATS = {"z3": 0, "cvc5": 0, "z3_s": 0.0, "cvc5_s": 0.0, "queries": 0}


def check(formulas, timeout_ms=None, want_model=True, use_cvc5=True):
    """returns (status, model_or_None, backend, seconds); status in {'unsat','sat','unknown'}"""
    s = z3.Solver()
    s.set("timeout", (timeout_ms or Z3_TIMEOUT_MS) // 2)
    s.add(*formulas)
    t = time.time()
    r = s.check()
    dt = time.time() - t
    STATS["queries"] += 1
    STATS["z3_s"] += dt
    if r == z3.unsat:
        STATS["z3"] += 1
        return "unsat", None, "z3", dt
    if r == z3.sat:
        STATS["z3"] += 1
        return "sat", (s.model() if want_model else None), "z3", dt
    # second attempt: simplify + solve-eqs preprocessing (often decisive for ite-heavy arithmetic)
    try:
        t = time.time()
        pre = z3.Then(z3.Tactic("simplify"), z3.Tactic("solve-eqs"), z3.Tactic("smt"))
        s2 = pre.solver()
        s2.set("timeout", timeout_ms or Z3_TIMEOUT_MS)
        s2.add(*[z3.simplify(f) for f in formulas])
        r2 = s2.check()
        dt += time.time() - t
        STATS["z3_s"] += time.time() - t
        if r2 == z3.unsat:
            STATS["z3"] += 1
            return "unsat", None, "z3 (simplify, solve-eqs)", dt
        if r2 == z3.sat:
            # models of the preprocessed problem may miss eliminated variables: get one from the plain solver
            s3 = z3.Solver()
            s3.set("timeout", timeout_ms or Z3_TIMEOUT_MS)
            s3.add(*formulas)
            if s3.check() == z3.sat:
                STATS["z3"] += 1
                return "sat", (s3.model() if want_model else None), "z3", dt
    except z3.Z3Exception:
        pass
    if use_cvc5 and os.path.exists(CVC5):
        t = time.time()
        res = _cvc5(s.to_smt2())
        dt2 = time.time() - t
        STATS["cvc5_s"] += dt2
        if res in ("unsat", "sat"):
            STATS["cvc5"] += 1
            if res == "sat":
                # model comes from a second, longer z3 attempt; if that fails the caller gets sat without model
                s2 = z3.Solver()
                s2.set("timeout", 4 * (timeout_ms or Z3_TIMEOUT_MS))
                s2.add(*formulas)
                m = s2.model() if s2.check() == z3.sat else None
                return "sat", m, "cvc5", dt + dt2
            return "unsat", None, "cvc5", dt + dt2
        return "unknown", None, "z3+cvc5", dt + dt2
    return "unknown", None, "z3", dt


def _cvc5(smt2: str) -> str:
    with tempfile.NamedTemporaryFile("w", suffix=".smt2", delete=False) as fp:
        fp.write("(set-logic ALL)\n" + smt2)
        path = fp.name
    try:
        out = subprocess.run([CVC5, "--tlimit", str(CVC5_TIMEOUT_S * 1000), path], capture_output=True, text=True,
                             timeout=CVC5_TIMEOUT_S + 10)
        first = (out.stdout.strip().splitlines() or ["unknown"])[0].strip()
        return first if first in ("sat", "unsat") else "unknown"
    except (subprocess.TimeoutExpired, OSError):
        return "unknown"
    finally:
        os.unlink(path)


def model_int(m, t):
    v = m.eval(t, model_completion=True)
    return v.as_long()


def model_str(m, chars):
    return "".join(chr(model_int(m, c)) for c in chars)
