"""pyvc: hybrid concrete/symbolic interpreter of the ASTs of live schwifty functions.

Replay-based DFS over symbolic branches.  Concrete state = the live objects of the imported package;
symbolic state = the parameters.  See DESIGN.md section 2.1.
"""
from __future__ import annotations

import ast
import builtins
import enum
import hashlib
import inspect
import itertools
import operator
import os
import re
import textwrap
import threading
import time
import types

import z3

from . import rx
from .values import *  # noqa: F401,F403
from .values import (BoundFn, BreakSignal, Closure, ContinueSignal, Dec, Infeasible, MergeAbort, Raised,
                     ReturnSignal, SBool, SCycle, SDecStr, SFn, SInt, SObj, SOpaqueStr, SStr, Special, SuperProxy,
                     Unsupported, concretize, deep_sym, is_strlike, is_sym, lift_bool, lift_int, lift_str,
                     payload, simp)

REPO = os.environ.get("PYVC_REPO", "/repo/")
MUTATORS = {"append", "extend", "pop", "setdefault", "update", "clear", "remove", "insert", "sort", "reverse",
            "popitem", "__setitem__", "__delitem__", "add", "discard"}


def free_vars(t, limit=3):
    out = set()
    seen = set()
    stack = [t]
    while stack and len(out) < limit:
        x = stack.pop()
        if x.get_id() in seen:
            continue
        seen.add(x.get_id())
        if z3.is_const(x):
            if x.decl().kind() == z3.Z3_OP_UNINTERPRETED:
                out.add(x.decl().name())
        elif z3.is_app(x):
            if x.decl().kind() == z3.Z3_OP_UNINTERPRETED:
                out.add("<uf>")
                out.add("<uf2>")
            stack.extend(x.children())
        else:
            out.add("<quant>")
            out.add("<quant2>")
    return out


def exact_div(x, k):
    """x / k when x is syntactically a linear sum whose coefficients are all divisible by k, else None"""
    if z3.is_int_value(x):
        return z3.IntVal(x.as_long() // k) if x.as_long() % k == 0 else None
    if z3.is_add(x):
        parts = [exact_div(a, k) for a in x.children()]
        return None if any(p is None for p in parts) else z3.Sum(parts)
    if z3.is_mul(x):
        ch = x.children()
        for i, c in enumerate(ch):
            if z3.is_int_value(c) and c.as_long() % k == 0:
                rest = ch[:i] + ch[i + 1:]
                q = c.as_long() // k
                prod = rest[0]
                for r in rest[1:]:
                    prod = prod * r
                return prod if q == 1 else q * prod
    return None


class Frame:
    def __init__(self, fn, env, defcls, closure=(), globs=None, qual=""):
        self.fn, self.env, self.defcls, self.closure = fn, env, defcls, closure
        self.globs = globs if globs is not None else (fn.__globals__ if fn is not None else {})
        self.qual = qual or (fn.__qualname__ if fn is not None else "?")

    def child(self):
        return Frame(self.fn, dict(self.env), self.defcls, self.closure, self.globs, self.qual)


def _is_lru(v):
    import functools
    return isinstance(v, functools._lru_cache_wrapper)


class Interp:
    def __init__(self, contracts=None, opaque_calls=None, feas_timeout=5000):
        self.contracts = contracts or {}
        self.ast_cache = {}
        self.assumptions = []       # global facts (domain of the symbolic inputs, instantiated invariants)
        self.obligations = []       # (name, pc snapshot, clause)
        self.functions_seen = {}    # qualname -> (file, firstline)
        self.files_seen = {}
        self.havoc_fields = True
        self.havoc_log = []         # (obj cls, attr) read before written on a shared instance
        self.feas_timeout = feas_timeout
        self.nqueries = 0
        self.unknown_feasibility = 0
        self.digit_defs = set()
        self.hash_ordered = []      # sizes of str sets whose (hash-seed dependent) order was observed
        self.external_calls = set()  # names of non-repo callables executed natively (C13: sources of nondeterminism)
        self.random_model = None
        self.loop_generic = set()    # qualnames whose `for _ in range(N)` retry loop is verified as ONE generic iteration
        self.interfere = set()      # C14: (class, attr) of shared fields another thread may overwrite at any time
        self.interfered = []
        self.guarantee = {}         # (class, attr) -> [(pc, value term)] collected from an undisturbed exploration
        self.named_terms = {}
        self.assume_requires = 0
        self.entails_cache = {}
        self.domains = {}           # char variable name -> sorted list of admissible code points (for canon)
        self.no_branch = 0
        self.fresh_n = 0
        self.reset_path([])

    # ------------------------------------------------------------------ paths
    def reset_path(self, decisions):
        self.decisions = list(decisions)
        self.pos = 0
        self.pc = list(getattr(self, "base_pc", ()))
        self.heap = {}
        self.writes = []
        self.local_ids = set()
        self.path_obligations = []
        self.keep = []              # keeps objects alive so that ids stay unique during a path
        self.cur_model = None
        self.cur_model_key = None
        self.elem_n = 0
        self.loop_n = 0
        self.path_history = []      # earlier calls a path assumes (cache hits): replayed natively as a prelude
        self.defs = []              # definitional constraints of fresh variables (digits of a term ...)
        self.fresh_n = 0

    def fresh(self, prefix, sort="int"):
        self.fresh_n += 1
        name = f"{prefix}!{self.fresh_n}"
        return z3.Int(name) if sort == "int" else z3.Bool(name)

    def solver(self, extra=()):
        s = z3.Solver()
        s.set("timeout", self.feas_timeout)
        s.add(*self.assumptions, *self.pc, *self.defs, *extra)
        return s

    def qcheck(self, extra=()):
        """(result, model or None) of assumptions + pc + defs + extra, on an incremental solver that keeps the
        (growing) assumptions asserted; unknown falls back to a fresh solver"""
        sol = getattr(self, "_inc", None)
        if sol is None:
            sol = self._inc = z3.Solver()
            sol.set("timeout", self.feas_timeout)
            self._inc_n = 0
        if self._inc_n < len(self.assumptions):
            sol.add(*self.assumptions[self._inc_n:])
            self._inc_n = len(self.assumptions)
        sol.push()
        try:
            sol.add(*self.pc, *self.defs, *extra)
            r = sol.check()
            m = sol.model() if r == z3.sat else None
        finally:
            sol.pop()
        if r == z3.unknown:
            s2 = self.solver(extra)
            r = s2.check()
            m = s2.model() if r == z3.sat else None
        return r, m

    def entails(self, t):
        """does assumptions + pc imply t ? (unknown -> False)"""
        # replay stability: the first answer for (path condition, term) is final.  Assumptions only grow, so a
        # cached True stays true and a cached False is merely conservative
        key = (tuple(x.get_id() for x in self.pc), t.get_id())
        hit = self.entails_cache.get(key)
        if hit is not None:
            return hit[0]
        known = self.model_says(t)
        if known is False:
            r = False           # the cached model of assumptions + pc falsifies t
        else:
            self.nqueries += 1
            r = self.qcheck([z3.Not(t)])[0] == z3.unsat
        self.entails_cache[key] = (r, t, list(self.pc))      # keeps the terms alive: ids stay unique
        return r

    def feasible(self, t):
        """is assumptions + pc + t satisfiable?  unknown counts as feasible (explores more, never less).
        returns (feasible, model or None)"""
        self.nqueries += 1
        r, m = self.qcheck([t])
        if r == z3.unknown:
            sol = z3.Solver()
            sol.set("timeout", 4 * self.feas_timeout)
            sol.add(*self.assumptions, *self.pc, *self.defs, t)
            r = sol.check()
            m = sol.model() if r == z3.sat else None
            if r == z3.unknown:
                self.unknown_feasibility += 1
        return r != z3.unsat, m

    def model_says(self, t):
        """truth value of t under the cached model of assumptions + pc, or None"""
        m = self.cur_model
        if m is None or self.cur_model_key != (len(self.assumptions), tuple(x.get_id() for x in self.pc)):
            return None
        v = m.eval(t, model_completion=True)
        if z3.is_true(v):
            return True
        if z3.is_false(v):
            return False
        return None

    def merge_point(self):
        """replay-stable decision whether a pure conditional is merged (ite) or forked.
        returns 'try' (first visit), True (recorded: merged) or False (recorded: forked)"""
        if self.pos < len(self.decisions):
            d = self.decisions[self.pos][0]
            if d not in ("M+", "M-"):
                raise Unsupported("internal: replay misalignment at merge point")
            self.pos += 1
            return d == "M+"
        return "try"

    def merge_done(self, ok):
        self.decisions.append(("M+" if ok else "M-", False))
        self.pos += 1

    def branch(self, cond) -> bool:
        cond = concretize(cond) if is_sym(cond) else cond
        if not isinstance(cond, SBool):
            return self.truthy(cond)
        t = cond.t
        set_key = False
        if self.pos < len(self.decisions):
            d = self.decisions[self.pos][0]
            if not isinstance(d, bool):
                raise Unsupported("internal: replay misalignment")
        else:
            if self.no_branch:
                raise MergeAbort()
            known = self.model_says(t)
            mt = mf = self.cur_model if known is not None else None
            if known is True:
                can_t = True
                can_f, mf = self.feasible(z3.Not(t))
            elif known is False:
                can_f = True
                can_t, mt = self.feasible(t)
            else:
                can_t, mt = self.feasible(t)
                can_f, mf = self.feasible(z3.Not(t))
            if not can_t and not can_f:
                raise Infeasible()
            d = can_t
            self.decisions.append((d, can_t and can_f))
            self.cur_model = mt if d else mf
            set_key = True
        self.pos += 1
        self.pc.append(t if d else z3.Not(t))
        if set_key:
            self.cur_model_key = (len(self.assumptions), tuple(x.get_id() for x in self.pc))
        return d

    def truthy(self, v):
        v = payload(v)
        if isinstance(v, SBool):
            return self.branch(v)
        if isinstance(v, SInt):
            return self.branch(SBool(v.t != 0))
        if isinstance(v, SStr):
            return len(v) > 0
        if isinstance(v, SFn):
            return self.branch(SBool(v.len > 0))
        if isinstance(v, SDecStr):
            return len(v.pieces) > 0
        if isinstance(v, SObj):
            return True
        return bool(v)

    def explore(self, thunk, max_paths=20000):
        """run thunk on every feasible path; yields dict(pc, kind, value, writes, obligations)"""
        decisions = []
        n = 0
        while True:
            self.reset_path(decisions)
            if getattr(self, "deadline", None) and time.time() > self.deadline:
                raise Unsupported("exploration exceeded the task time budget")
            try:
                try:
                    out = ("return", thunk())
                except Raised as r:
                    out = ("raise", r.exc)
                n += 1
                if n > max_paths:
                    raise Unsupported(f"more than {max_paths} paths")
                yield dict(pc=list(self.pc) + list(self.defs), kind=out[0], value=out[1], writes=list(self.writes),
                           obligations=list(self.path_obligations), heap=dict(self.heap), keep=list(self.keep),
                           history=list(self.path_history))
            except Infeasible:
                pass
            decisions = self.decisions
            while decisions and not (decisions[-1][1] and decisions[-1][0]):
                decisions.pop()
            if not decisions:
                return
            decisions[-1] = (False, False)

    def oblige(self, name, clause):
        """safety / precondition obligation under the current path condition"""
        if self.assume_requires:
            if not self.feasible(clause)[0]:
                raise Infeasible()
            self.pc.append(clause)
            return
        self.path_obligations.append((name, list(self.pc) + list(self.defs), clause))

    def alloc(self, obj):
        self.local_ids.add(id(obj))
        self.keep.append(obj)
        return obj

    # ------------------------------------------------------------------ functions
    def get_ast(self, fn):
        key = fn.__code__
        if key not in self.ast_cache:
            src = textwrap.dedent(inspect.getsource(fn))
            node = ast.parse(src).body[0]
            self.ast_cache[key] = node
            fname = fn.__code__.co_filename
            self.functions_seen[f"{fn.__module__}.{fn.__qualname__}"] = (fname, fn.__code__.co_firstlineno)
            if fname not in self.files_seen:
                try:
                    self.files_seen[fname] = hashlib.sha256(open(fname, "rb").read()).hexdigest()[:16]
                except OSError:
                    self.files_seen[fname] = "?"
        return self.ast_cache[key]

    def is_repo_fn(self, fn):
        return isinstance(fn, types.FunctionType) and (
            fn.__code__.co_filename.startswith(REPO) or getattr(fn, "_pyvc_spec", False))

    def is_repo_cls(self, cls):
        return isinstance(cls, type) and getattr(cls, "__module__", "").startswith("schwifty")

    def bind_args(self, node, qn, args, kwargs, frame_for_defaults):
        env = {}
        params = node.args
        pos = [a.arg for a in params.posonlyargs + params.args]
        defaults = params.defaults
        kwargs = dict(kwargs)
        if len(args) > len(pos) and not params.vararg:
            raise Raised(TypeError(f"{qn}() takes {len(pos)} positional arguments but {len(args)} were given"))
        for i, n in enumerate(pos):
            if i < len(args):
                if n in kwargs:
                    raise Raised(TypeError(f"{qn}() got multiple values for argument {n!r}"))
                env[n] = args[i]
            elif n in kwargs:
                env[n] = kwargs.pop(n)
            else:
                j = i - (len(pos) - len(defaults))
                if j < 0:
                    raise Raised(TypeError(f"{qn}() missing required argument {n!r}"))
                env[n] = self.eval(defaults[j], frame_for_defaults)
        for a, d in zip(params.kwonlyargs, params.kw_defaults):
            if a.arg in kwargs:
                env[a.arg] = kwargs.pop(a.arg)
            elif d is not None:
                env[a.arg] = self.eval(d, frame_for_defaults)
            else:
                raise Raised(TypeError(f"{qn}() missing keyword-only argument {a.arg!r}"))
        if params.kwarg:
            env[params.kwarg.arg] = self.alloc(kwargs)
        elif kwargs:
            raise Raised(TypeError(f"{qn}() got an unexpected keyword argument {next(iter(kwargs))!r}"))
        if params.vararg:
            env[params.vararg.arg] = tuple(args[len(pos):])
        return env

    def call_function(self, fn, args, kwargs, defcls=None, ignore_contract=False):
        qn = fn.__module__ + "." + fn.__qualname__
        if qn in self.contracts and not ignore_contract:
            return self.contracts[qn](self, *args, **kwargs)
        node = self.get_ast(fn)
        env = self.bind_args(node, fn.__qualname__, args, kwargs, Frame(fn, {}, defcls))
        frame = Frame(fn, env, defcls)
        if isinstance(node, ast.Lambda):
            return self.eval(node.body, frame)
        try:
            self.exec_block(node.body, frame)
        except ReturnSignal as r:
            return r.v
        return None

    def call_closure(self, c, args, kwargs):
        node = c.node
        outer = c.frame
        env = self.bind_args(node, c.name, args, kwargs, outer)
        frame = Frame(outer.fn, env, outer.defcls, (outer.env,) + tuple(outer.closure), outer.globs,
                      outer.qual + "." + c.name)
        if isinstance(node, ast.Lambda):
            return self.eval(node.body, frame)
        try:
            self.exec_block(node.body, frame)
        except ReturnSignal as r:
            return r.v
        return None

    # ------------------------------------------------------------------ statements
    def exec_block(self, stmts, f):
        for s in stmts:
            self.exec(s, f)

    def exec(self, s, f):
        m = getattr(self, "x_" + type(s).__name__, None)
        if m is None:
            raise Unsupported(f"stmt {type(s).__name__} at {f.qual}:{s.lineno}")
        return m(s, f)

    def x_Expr(self, s, f):
        self.eval(s.value, f)

    def x_Pass(self, s, f):
        pass

    def x_Import(self, s, f):
        for a in s.names:
            f.env[(a.asname or a.name).split(".")[0]] = __import__(a.name)

    def x_ImportFrom(self, s, f):
        mod = __import__(s.module, fromlist=[a.name for a in s.names])
        for a in s.names:
            f.env[a.asname or a.name] = getattr(mod, a.name)

    def x_Return(self, s, f):
        raise ReturnSignal(self.eval(s.value, f) if s.value else None)

    def x_FunctionDef(self, s, f):
        f.env[s.name] = Closure(s, f, s.name)

    def x_Assign(self, s, f):
        v = self.eval(s.value, f)
        for t in s.targets:
            self.assign(t, v, f)

    def x_AnnAssign(self, s, f):
        if s.value is not None:
            self.assign(s.target, self.eval(s.value, f), f)

    def x_AugAssign(self, s, f):
        load = ast.copy_location(type(s.target)(**{k: getattr(s.target, k) for k in s.target._fields}), s.target)
        load.ctx = ast.Load()
        cur = self.eval(load, f)
        self.assign(s.target, self.binop(s.op, cur, self.eval(s.value, f)), f)

    def assign(self, t, v, f):
        if isinstance(t, ast.Name):
            f.env[t.id] = v
        elif isinstance(t, (ast.Tuple, ast.List)):
            items = self.iterate(v)
            if len(items) != len(t.elts):
                raise Raised(ValueError(f"unpack: expected {len(t.elts)}, got {len(items)}"))
            for tt, vv in zip(t.elts, items):
                self.assign(tt, vv, f)
        elif isinstance(t, ast.Attribute):
            obj = self.eval(t.value, f)
            self.setattr(obj, t.attr, v, f, t.lineno)
        elif isinstance(t, ast.Subscript):
            obj = self.eval(t.value, f)
            key = self.eval(t.slice, f)
            key = concretize(key) if is_sym(key) else key
            if is_sym(key):
                raise Unsupported("store with symbolic key")
            if not isinstance(obj, (dict, list)):
                raise Unsupported(f"subscript store on {type(obj).__name__}")
            if id(obj) not in self.local_ids:
                self.writes.append(dict(kind="item", target=type(obj).__name__, shared=True, where=f.qual,
                                        line=t.lineno, key=repr(key)[:40]))
                from .values import FrameViolation
                raise FrameViolation(f"write into a shared {type(obj).__name__} at {f.qual}:{t.lineno}")
            obj[key] = v
        else:
            raise Unsupported(f"assign target {type(t).__name__}")

    def setattr(self, obj, name, v, f, lineno):
        cls = obj.cls if isinstance(obj, SObj) else type(obj)
        k, d = self.lookup_cls(cls, name) if isinstance(cls, type) else (None, None)
        if isinstance(d, property) and k is not None and self.is_repo_cls(k):
            if d.fset is None:
                raise Raised(AttributeError(f"property {name} has no setter"))
            self.call_function(d.fset, [obj, v], {}, defcls=k)
            return
        # threading.local attributes are per thread (assumed contract of threading.local): not shared between
        # threads (C14), but they do outlive the call within a thread (C15: havocked on read-before-write)
        tlocal = isinstance(obj, threading.local)
        shared = not (isinstance(obj, SObj) or id(obj) in self.local_ids) and not tlocal
        self.heap[(id(obj), name)] = v
        code = f.fn.__code__ if f.fn is not None else None
        self.writes.append(dict(kind="attr", target=(obj.cls.__name__ if isinstance(obj, SObj) else type(obj).__name__),
                                attr=name, shared=shared, where=f.qual, line=lineno, obj=obj,
                                value=v, pc=list(self.pc),
                                file=code.co_filename if code else "?",
                                abs_line=(code.co_firstlineno + lineno - 1) if code else 0))

    def x_If(self, s, f):
        if self.truthy(self.eval(s.test, f)):
            self.exec_block(s.body, f)
        else:
            self.exec_block(s.orelse, f)

    def x_While(self, s, f):
        n = 0
        while self.truthy(self.eval(s.test, f)):
            n += 1
            if n > 60:
                raise Unsupported(f"while unwinding > 60 at {f.qual}:{s.lineno}")
            try:
                self.exec_block(s.body, f)
            except ContinueSignal:
                continue
            except BreakSignal:
                break
        else:
            self.exec_block(s.orelse, f)

    def x_For(self, s, f):
        items = self.iterate(self.eval(s.iter, f))
        if f.qual in self.loop_generic and len(items) > 1 and isinstance(s.target, ast.Name) and s.target.id == "_":
            # retry loop: the body does not depend on the iteration (the loop variable is unused and every local it
            # reads is assigned earlier in the same iteration): one generic iteration, then the for-else
            items = items[:1]
        for item in items:
            self.assign(s.target, item, f)
            try:
                self.exec_block(s.body, f)
            except ContinueSignal:
                continue
            except BreakSignal:
                break
        else:
            self.exec_block(s.orelse, f)

    def x_Continue(self, s, f):
        raise ContinueSignal()

    def x_Break(self, s, f):
        raise BreakSignal()

    def x_Raise(self, s, f):
        if s.exc is None:
            raise Unsupported("bare raise")
        e = self.eval(s.exc, f)
        if isinstance(e, type):
            e = e()
        if not isinstance(e, BaseException):
            raise Unsupported("raise of non-exception")
        raise Raised(e)

    def x_Assert(self, s, f):
        if not self.truthy(self.eval(s.test, f)):
            raise Raised(AssertionError(f"{f.qual}:{s.lineno}"))

    def x_With(self, s, f):
        """context managers: only objects that model their own protocol (`pyvc_enter` / `pyvc_exit`) are supported"""
        entered = []
        for item in s.items:
            cm = self.eval(item.context_expr, f)
            if not hasattr(cm, "pyvc_enter"):
                raise Unsupported(f"with-statement on {type(cm).__name__}")
            v = cm.pyvc_enter(self)
            entered.append(cm)
            if item.optional_vars is not None:
                self.assign(item.optional_vars, v, f)
        try:
            self.exec_block(s.body, f)
        finally:
            for cm in reversed(entered):
                cm.pyvc_exit(self)

    def x_Try(self, s, f):
        try:
            self.exec_block(s.body, f)
        except Raised as r:
            for h in s.handlers:
                types_ = self.eval(h.type, f) if h.type else BaseException
                if isinstance(r.exc, types_):
                    if h.name:
                        f.env[h.name] = r.exc
                    self.exec_block(h.body, f)
                    break
            else:
                if s.finalbody:
                    self.exec_block(s.finalbody, f)
                raise
        else:
            self.exec_block(s.orelse, f)
        if s.finalbody:
            self.exec_block(s.finalbody, f)

    # ------------------------------------------------------------------ expressions
    def eval(self, e, f):
        m = getattr(self, "e_" + type(e).__name__, None)
        if m is None:
            raise Unsupported(f"expr {type(e).__name__} at {f.qual}:{getattr(e, 'lineno', 0)}")
        return m(e, f)

    def e_Constant(self, e, f):
        return e.value

    def e_Name(self, e, f):
        n = e.id
        if n in f.env:
            return f.env[n]
        for fr in f.closure:
            if n in fr:
                return fr[n]
        if n in f.globs:
            return f.globs[n]
        if hasattr(builtins, n):
            return getattr(builtins, n)
        raise Raised(NameError(n))

    def e_NamedExpr(self, e, f):
        v = self.eval(e.value, f)
        f.env[e.target.id] = v
        return v

    def e_Tuple(self, e, f):
        out = []
        for x in e.elts:
            if isinstance(x, ast.Starred):
                out.extend(self.iterate(self.eval(x.value, f)))
            else:
                out.append(self.eval(x, f))
        return tuple(out)

    def e_List(self, e, f):
        return self.alloc(list(self.e_Tuple(e, f)))

    def e_Set(self, e, f):
        return self.alloc(list(self.e_Tuple(e, f)))    # sets are only used for `in {...}` / iteration

    def e_Dict(self, e, f):
        out = {}
        for k, v in zip(e.keys, e.values):
            if k is None:
                out.update(self.eval(v, f))
            else:
                out[self.hashable(self.eval(k, f))] = self.eval(v, f)
        return self.alloc(out)

    def hashable(self, k):
        k = concretize(k) if is_sym(k) else k
        if is_sym(k):
            raise Unsupported("symbolic dict key")
        return k

    def e_JoinedStr(self, e, f):
        parts = []
        for v in e.values:
            if isinstance(v, ast.Constant):
                parts.append(v.value)
                continue
            val = payload(self.eval(v.value, f))
            spec = self.eval(v.format_spec, f) if v.format_spec else ""
            spec = concretize(spec) if is_sym(spec) else spec
            if not isinstance(spec, str):
                raise Unsupported("symbolic format spec")
            if v.conversion == 114 and (is_sym(val) or isinstance(val, SObj)):   # !r
                parts.append("<sym>")
            elif isinstance(val, (SInt, SBool)):
                parts.append(self.format_int(SInt(lift_int(val)), spec))
            elif isinstance(val, (SStr, SDecStr)):
                if spec:
                    raise Unsupported("format spec on symbolic str")
                parts.append(val)
            elif isinstance(val, SFn):
                parts.append("<sym>")
            elif isinstance(val, SObj):
                parts.append("<obj>")
            else:
                if v.conversion == 114:
                    val = repr(val)
                elif v.conversion == 115:
                    val = str(val)
                parts.append(format(val, spec))
        return self.concat(parts)

    def format_int(self, v, spec):
        m = re.fullmatch(r"0?(\d*)d?", spec)
        if not m:
            raise Unsupported(f"format spec {spec!r}")
        s = self.str_of_int(v)
        w = int(m.group(1) or 0)
        if w == 0:
            return s
        if isinstance(s, str):
            return s.rjust(w, "0" if spec.startswith("0") else " ")
        if not spec.startswith("0"):
            raise Unsupported("space padding of symbolic int")
        if isinstance(s, SStr):
            return SStr([z3.IntVal(48)] * max(0, w - len(s)) + s.chars)
        # Dec piece: width w exactly when v < 10**w
        (piece,) = s.pieces
        if not self.branch(SBool(piece.v < 10 ** w)):
            return s
        return SStr(self.digits_of(piece.v, w))

    def str_of_int(self, v):
        v = concretize(v)
        if isinstance(v, int):
            return str(v)
        if self.branch(SBool(v.t < 0)):
            pos = self.str_of_int(SInt(-v.t))
            return self.concat(["-", pos])
        if self.entails(v.t < 10):
            return SStr([48 + v.t])
        bound = None
        for k in (2, 3, 4, 6, 9, 12, 20, 40):
            if self.entails(v.t < 10 ** k):
                bound = 10 ** k
                break
        return SDecStr([Dec(v.t, bound)])

    def digits_of(self, v, n):
        """n decimal digit terms of v (0 <= v < 10**n under the path condition): fresh variables d_k with
        0 <= d_k <= 9 and v == sum d_k 10^k - linear, no div/mod for the solver"""
        vs = simp(v)
        if z3.is_int_value(vs):
            return [z3.IntVal(ord(ch)) for ch in str(vs.as_long()).rjust(n, "0")]
        fv = free_vars(vs)
        if len(fv) == 1 and next(iter(fv)) in self.domains:
            # a unary term over a small-domain variable: its digits are tables of that variable (see canon)
            return [48 + (vs / 10 ** (n - 1 - k)) % 10 for k in range(n)]
        # content-addressed names: the same term always gets the same digit variables, so the (guarded)
        # definitions are globally consistent facts and can live among the assumptions
        key = hashlib.sha1(vs.sexpr().encode()).hexdigest()[:12]
        ds = [z3.Int(f"dg!{key}!{n}!{k}") for k in range(n)]
        if (key, n) not in self.digit_defs:
            self.digit_defs.add((key, n))
            total = z3.IntVal(0)
            for d in ds:
                total = total * 10 + d
            self.assumptions.append(z3.Implies(z3.And(vs >= 0, vs < 10 ** n),
                                               z3.And(total == vs, *[z3.And(d >= 0, d <= 9) for d in ds])))
        return [48 + d for d in ds]

    def name_term(self, t, prefix):
        """content-addressed constant standing for the compound term t (definition kept among the assumptions):
        keeps later formulas small and lets canon treat the character as a variable"""
        key = hashlib.sha1(t.sexpr().encode()).hexdigest()[:14]
        v = z3.Int(f"{prefix}!{key}")
        if key not in self.named_terms:
            self.named_terms[key] = t
            self.assumptions.append(v == t)
        return v

    def concat(self, parts):
        """concatenate str / SStr / SDecStr parts"""
        if all(isinstance(p, str) for p in parts):
            return "".join(parts)
        pieces = []
        dec = False
        for p in parts:
            p = payload(p)
            if isinstance(p, SDecStr):
                pieces += p.pieces
                dec = True
            elif isinstance(p, (str, SStr)):
                pieces += lift_str(p).chars
            else:
                raise Unsupported(f"concat of {type(p).__name__}")
        return SDecStr(pieces) if dec else concretize(SStr(pieces))

    def materialize(self, s):
        """SDecStr -> SStr by forking on the number of digits of each Dec piece"""
        if not isinstance(s, SDecStr):
            return s
        out = []
        for p in s.pieces:
            if not isinstance(p, Dec):
                out.append(p)
                continue
            if p.bound is None or p.bound > 10 ** 12:
                raise Unsupported("str() of a symbolic int that may have more than 12 digits (length unknown)")
            n = 1
            while not self.branch(SBool(p.v < 10 ** n)):
                n += 1
                if n > 12:
                    raise Unsupported("str(int) wider than 12 digits")
            out += self.digits_of(p.v, n)
        return SStr(out)

    def e_Attribute(self, e, f):
        obj = self.eval(e.value, f)
        return self.getattr(obj, e.attr)

    def lookup_cls(self, cls, name, after=None):
        mro = cls.__mro__
        if after is not None:
            mro = mro[mro.index(after) + 1:]
        for k in mro:
            if name in k.__dict__:
                return k, k.__dict__[name]
        return None, None

    def getattr(self, obj, name):
        if (id(obj), name) in self.heap:
            if self.interfere and not isinstance(obj, SObj) and id(obj) not in self.local_ids \
                    and (type(obj).__name__, name) in self.interfere_fields(obj):
                # C14 second tier: another thread may have written this shared field since this call wrote it
                self.interfered.append((type(obj).__name__, name))
                v = self.fresh(f"interference_{name}")
                self.assumptions.append(self.guarantee_formula((type(obj).__name__, name), v))
                return SInt(v)
            return self.heap[(id(obj), name)]
        if isinstance(obj, threading.local):
            self.havoc_log.append(("threading.local", name))
            t = SInt(z3.Int(f"havoc_threadlocal_{name}"))
            self.heap[(id(obj), name)] = t
            return t
        if isinstance(obj, SuperProxy):
            target = obj.obj
            cls = target if isinstance(target, type) else (target.cls if isinstance(target, SObj) else type(target))
            k, v = self.lookup_cls(cls, name, after=obj.cls)
            if k is None:
                raise Raised(AttributeError(name))
            if isinstance(target, type):       # super() inside a classmethod / __new__
                if name == "__new__":
                    if k in (str, object):
                        return Special("base_new", k)
                    return Special("static_new", v.__func__ if isinstance(v, staticmethod) else v, k)
                if isinstance(v, classmethod):
                    return BoundFn(v.__func__, target, k)
                raise Unsupported(f"super(cls).{name}")
            if isinstance(v, types.FunctionType) and self.is_repo_fn(v):
                return BoundFn(v, target, k)
            if isinstance(v, property) and self.is_repo_fn(v.fget):
                return self.call_function(v.fget, [target], {}, defcls=k)
            if name == "__init__":
                return Special("noop")
            raise Unsupported(f"super().{name} resolves outside the repo ({k.__name__})")
        if isinstance(obj, SObj):
            k, v = self.lookup_cls(obj.cls, name)
            if k is not None and self.is_repo_cls(k):
                if isinstance(v, types.FunctionType):
                    return BoundFn(v, obj, k)
                if _is_lru(v):
                    return Special("lrumethod", v, obj)       # functools.lru_cache on a method: self is part of the key
                if isinstance(v, property):
                    if _is_lru(v.fget):
                        return self.call(v.fget, [obj], {})
                    return self.call_function(v.fget, [obj], {}, defcls=k)
                if isinstance(v, classmethod):
                    return BoundFn(v.__func__, obj.cls, k)
                if isinstance(v, staticmethod):
                    return v.__func__
                return v
            if name == "__class__":
                return obj.cls
            if obj.payload is not None and hasattr(str, name):
                return Special("strmethod", obj.payload, name)
            if k is None:
                raise Raised(AttributeError(f"{obj.cls.__name__}.{name}"))
            return v
        if isinstance(obj, (SStr, SDecStr, SFn, SOpaqueStr)):
            return Special("strmethod", obj, name)
        if isinstance(obj, enum.Enum) and name in ("value", "name", "_value_", "_name_"):
            return getattr(obj, name)
        if isinstance(obj, str):
            return Special("strmethod", obj, name)
        if isinstance(obj, re.Pattern) and name in ("match", "fullmatch", "sub", "search"):
            return Special("rxmethod", obj, name)
        if isinstance(obj, type):
            k, v = self.lookup_cls(obj, name)
            if k is not None and self.is_repo_cls(k):
                if isinstance(v, types.FunctionType):
                    return v
                if isinstance(v, classmethod):
                    return BoundFn(v.__func__, obj, k)
                if isinstance(v, staticmethod):
                    return v.__func__
                return v
            return getattr(obj, name)
        if isinstance(obj, types.ModuleType):
            try:
                return getattr(obj, name)
            except AttributeError as ex:
                raise Raised(ex)
        # live instance of a repo class (algorithm singletons, dataclasses ...)
        if self.is_repo_cls(type(obj)):
            d = getattr(obj, "__dict__", {})
            if name in d and not isinstance(obj, enum.Enum):
                val = d[name]
                if self.havoc_fields and id(obj) not in self.local_ids and isinstance(val, int) \
                        and not isinstance(val, bool) and self.is_shared_mutable(obj):
                    # C15: scratch state of a shared singleton is arbitrary at entry
                    t = z3.Int(f"havoc_{type(obj).__name__}_{name}")
                    self.havoc_log.append((type(obj).__name__, name))
                    self.heap[(id(obj), name)] = SInt(t)
                    return SInt(t)
                return val
            k, v = self.lookup_cls(type(obj), name)
            if k is not None and self.is_repo_cls(k):
                if isinstance(v, types.FunctionType) and self.is_repo_fn(v):
                    return BoundFn(v, obj, k)
                if _is_lru(v):
                    return Special("lrumethod", v, obj)
                if isinstance(v, property) and _is_lru(v.fget):
                    return self.call(v.fget, [obj], {})
                if isinstance(v, property) and self.is_repo_fn(v.fget):
                    return self.call_function(v.fget, [obj], {}, defcls=k)
                if isinstance(v, classmethod):
                    return BoundFn(v.__func__, type(obj), k)
        try:
            return getattr(obj, name)
        except AttributeError as ex:
            raise Raised(ex)

    def guarantee_formula(self, field, v):
        """what another thread's call can have written into `field`: v equals one of the values some path of the
        same call tree writes there, for some (renamed) input of that other call"""
        recs = self.guarantee.get(field)
        if not recs:
            return z3.BoolVal(True)
        self.rename_n = getattr(self, "rename_n", 0) + 1
        alts = []
        for pc, term in recs:
            fs = list(pc) + [v == term]
            consts = {}
            stack = list(fs)
            seen = set()
            while stack:
                x = stack.pop()
                if x.get_id() in seen:
                    continue
                seen.add(x.get_id())
                if z3.is_const(x) and x.decl().kind() == z3.Z3_OP_UNINTERPRETED and x.get_id() != v.get_id():
                    consts[x.decl().name()] = x
                elif z3.is_app(x):
                    stack.extend(x.children())
            subs = [(c, z3.Const(f"{n}@other{self.rename_n}", c.sort())) for n, c in consts.items()]
            dom = [z3.And(*[z3.Or(*[o == d for d in self.domains[n]])]) for n, (c, o) in
                   zip(consts, subs) if n in self.domains]
            alts.append(z3.And(*[z3.substitute(f, *subs) for f in fs], *dom))
        return z3.Or(*alts)

    def interfere_fields(self, obj):
        """fields of a shared object that some call writes: (class name of any class in the MRO, attr)"""
        names = {k.__name__ for k in type(obj).__mro__}
        return {(type(obj).__name__, a) for (c, a) in self.interfere if c in names or c == type(obj).__name__}

    def is_shared_mutable(self, obj):
        from schwifty.checksum import Algorithm
        return isinstance(obj, Algorithm)

    def e_Subscript(self, e, f):
        obj = self.eval(e.value, f)
        if isinstance(e.slice, ast.Slice):
            lo = self.eval(e.slice.lower, f) if e.slice.lower else None
            hi = self.eval(e.slice.upper, f) if e.slice.upper else None
            st = self.eval(e.slice.step, f) if e.slice.step else None
            return self.slice(obj, lo, hi, st)
        idx = self.eval(e.slice, f)
        return self.index(obj, idx)

    def slice(self, obj, lo, hi, st):
        lo, hi, st = (concretize(x) if is_sym(x) else x for x in (lo, hi, st))
        obj = payload(obj)
        if any(is_sym(x) for x in (lo, hi, st)):
            # a symbolic bound over a sequence of known length takes finitely many relevant values: fork on them
            if isinstance(obj, (SStr, str, list, tuple)) and not is_sym(st):
                n = len(obj)

                def pick(b):
                    if not isinstance(b, SInt):
                        return b
                    for v in range(-n - 1, n + 2):
                        if self.branch(SBool(b.t == v)):
                            return v
                    if self.branch(SBool(b.t > n + 1)):
                        return n + 1
                    return -n - 1
                lo, hi = pick(lo), pick(hi)
            else:
                raise Unsupported("symbolic slice bound")
        if isinstance(obj, SDecStr):
            obj = self.materialize(obj)
        if isinstance(obj, SStr):
            return concretize(SStr(obj.chars[lo:hi:st]))
        if isinstance(obj, SFn):
            return self.slice_fn(obj, lo, hi, st)
        try:
            return obj[lo:hi:st]
        except TypeError as ex:
            raise Raised(ex)

    def pin_length(self, s):
        """if assumptions + pc pin len(s) to one value return it, else None"""
        ln = simp(s.len)
        if z3.is_int_value(ln):
            return ln.as_long()
        key = ("pin", tuple(x.get_id() for x in self.pc), ln.get_id())
        hit = self.entails_cache.get(key)
        if hit is not None:
            return hit[0]
        v = None
        m = self.cur_model if self.cur_model_key == (len(self.assumptions), tuple(x.get_id() for x in self.pc)) else None
        if m is None:
            self.nqueries += 1
            m = self.qcheck()[1]
        if m is not None:
            cand = m.eval(ln, model_completion=True)
            if z3.is_int_value(cand):
                self.nqueries += 1
                if self.qcheck([ln != cand])[0] == z3.unsat:
                    v = cand.as_long()
        self.entails_cache[key] = (v, ln, list(self.pc))
        return v

    def pin_str(self, v):
        """if assumptions + pc pin every character of the fixed-length string v, return the python str, else None"""
        v = concretize(v) if is_sym(v) else v
        if isinstance(v, str):
            return v
        if not isinstance(v, SStr):
            return None
        self.nqueries += 1
        m = self.qcheck()[1]
        if m is None:
            return None
        out = []
        for c in v.chars:
            val = m.eval(c, model_completion=True)
            if not z3.is_int_value(val) or not self.entails(c == val):
                return None
            out.append(chr(val.as_long()))
        return "".join(out)

    def vector_of(self, s, n):
        if getattr(self, "name_vector_chars", False):
            return SStr([self.name_term(s.at(z3.IntVal(i)), "ch") for i in range(n)])
        return SStr([s.at(z3.IntVal(i)) for i in range(n)])

    def slice_fn(self, s, lo, hi, st):
        n = self.pin_length(s)
        if n is not None:
            return concretize(SStr(self.vector_of(s, n).chars[lo:hi:st]))
        if st is not None or (lo is not None and lo < 0) or (hi is not None and hi < 0):
            raise Unsupported("slice of unpinned symbolic-length string")
        lo = lo or 0
        if hi is None:
            # suffix of unknown length
            if self.branch(SBool(s.len >= lo)):
                r = SFn(s.len - lo, (lambda i, s=s, lo=lo: s.at(i + lo)), f"{s.name}[{lo}:]")
                for a in ("all_fix", "upper_closed"):
                    if getattr(s, a, False):
                        setattr(r, a, True)
                return r
            return ""
        if self.branch(SBool(s.len >= hi)):
            return SStr([s.at(z3.IntVal(i)) for i in range(lo, hi)]) if hi > lo else ""
        # shorter than hi: enumerate the (finitely many) lengths
        for n in range(hi):
            if self.branch(SBool(s.len == n)):
                return concretize(SStr(self.vector_of(s, n).chars[lo:hi]))
        raise Infeasible()

    def index(self, obj, idx):
        idx = concretize(idx) if is_sym(idx) else idx
        obj = payload(obj)
        if isinstance(obj, SDecStr):
            obj = self.materialize(obj)
        if isinstance(obj, SFn):
            n = self.pin_length(obj)
            if n is None:
                if isinstance(idx, int) and idx >= 0:
                    if self.branch(SBool(obj.len > idx)):
                        return SStr([obj.at(z3.IntVal(idx))])
                    raise Raised(IndexError("string index out of range"))
                raise Unsupported("index into unpinned symbolic-length string")
            obj = self.vector_of(obj, n)
        if isinstance(obj, SStr):
            if is_sym(idx):
                raise Unsupported("symbolic index into symbolic string")
            if not isinstance(idx, int):
                raise Raised(TypeError("string indices must be integers"))
            if not -len(obj) <= idx < len(obj):
                raise Raised(IndexError("string index out of range"))
            return concretize(SStr([obj.chars[idx]]))
        if isinstance(idx, SInt):
            if isinstance(obj, (list, tuple, str)):
                n = len(obj)
                if not self.branch(SBool(z3.And(idx.t >= -n, idx.t < n))):
                    raise Raised(IndexError("index out of range"))
                vals = [ord(x) if isinstance(obj, str) else x for x in obj]
                if all(isinstance(x, int) and not isinstance(x, bool) for x in vals):
                    ix = idx.t if self.entails(idx.t >= 0) else z3.If(idx.t < 0, idx.t + n, idx.t)
                    # runs of consecutive indices whose values differ from the index by a constant: one ite per run
                    runs = []
                    for k, val in enumerate(vals):
                        if runs and runs[-1][2] == val - k:
                            runs[-1][1] = k
                        else:
                            runs.append([k, k, val - k])
                    t = ix + runs[-1][2]
                    for lo, hi, off in runs[-2::-1]:
                        t = z3.If(z3.And(ix >= lo, ix <= hi), ix + off, t)
                    return SStr([t]) if isinstance(obj, str) else SInt(t)
                for k in range(n):
                    if self.branch(SBool(z3.Or(idx.t == k, idx.t == k - n))):
                        return obj[k]
                raise Infeasible()
            raise Unsupported("symbolic int key")
        if isinstance(idx, SStr) and isinstance(obj, dict):
            return self.dict_lookup(obj, idx)
        if is_sym(idx):
            raise Unsupported(f"symbolic key of type {type(idx).__name__}")
        try:
            return obj[idx]
        except (IndexError, KeyError, TypeError) as ex:
            raise Raised(ex)

    def dict_lookup(self, d, key: SStr, default=KeyError):
        """d[key] for a symbolic fixed-length key.  Single-character tables become an ite chain; otherwise the
        lookup forks per candidate key of the same length."""
        cands = [k for k in d if isinstance(k, str) and len(k) == len(key)]
        if len(cands) > 4:
            pinned = self.pin_str(key)
            if pinned is not None:
                if pinned in d:
                    return d[pinned]
                if default is KeyError:
                    raise Raised(KeyError(pinned))
                return default
        if len(key) == 1 and cands and all(
                (isinstance(d[k], str) and len(d[k]) == 1) or (isinstance(d[k], int) and not isinstance(d[k], bool))
                for k in cands):
            c = key.chars[0]
            member = z3.Or(*[c == ord(k) for k in cands])
            if not self.branch(SBool(member)):
                if default is KeyError:
                    raise Raised(KeyError("<sym>"))
                return default
            as_str = isinstance(d[cands[0]], str)
            # consecutive keys whose values differ from the key by a constant offset form one run: one ite per run
            items = sorted((ord(k), ord(d[k]) if as_str else d[k]) for k in cands)
            runs = []
            for ko, val in items:
                if runs and runs[-1][1] == ko - 1 and runs[-1][2] == ko - val:
                    runs[-1][1] = ko
                else:
                    runs.append([ko, ko, ko - val])
            t = c - runs[-1][2]
            for lo, hi, off in runs[-2::-1]:
                t = z3.If(z3.And(c >= lo, c <= hi), c - off, t)
            return SStr([t]) if as_str else SInt(t)
        if len(key) == 1 and len(cands) > 4 and all(
                isinstance(d[k], str) and d[k].isdigit() and d[k].isascii() and str(int(d[k])) == d[k] for k in cands):
            # single-character table of canonical decimal renderings of different widths ("0" .. "35"): the result is
            # str(v) of the integer table value v - one ite chain, no fork per key
            c = key.chars[0]
            member = z3.Or(*[c == ord(k) for k in cands])
            if not self.branch(SBool(member)):
                if default is KeyError:
                    raise Raised(KeyError("<sym>"))
                return default
            items = sorted((ord(k), int(d[k])) for k in cands)
            runs = []
            for ko, val in items:
                if runs and runs[-1][1] == ko - 1 and runs[-1][2] == ko - val:
                    runs[-1][1] = ko
                else:
                    runs.append([ko, ko, ko - val])
            t = c - runs[-1][2]
            for lo, hi, off in runs[-2::-1]:
                t = z3.If(z3.And(c >= lo, c <= hi), c - off, t)
            return self.str_of_int(SInt(t))
        for k in cands:
            eq = self.str_eq(key, k)
            if self.truthy(eq):
                return d[k]
        if default is KeyError:
            raise Raised(KeyError("<sym>"))
        return default

    def e_UnaryOp(self, e, f):
        v = self.eval(e.operand, f)
        if isinstance(e.op, ast.Not):
            v = concretize(v) if is_sym(v) else v
            if isinstance(v, SBool):
                return SBool(z3.Not(v.t))
            return not self.truthy(v)
        if isinstance(e.op, ast.USub):
            return SInt(-lift_int(v)) if is_sym(v) else -v
        if isinstance(e.op, ast.UAdd):
            return v
        raise Unsupported("unary op")

    def e_BoolOp(self, e, f):
        isand = isinstance(e.op, ast.And)
        # merge: if every operand evaluates (without forking) to a bool-like value, build And/Or
        vals = []
        last = None
        for i, x in enumerate(e.values):
            last = self.eval(x, f)
            last = concretize(last) if is_sym(last) else last
            if isinstance(last, SBool):
                merged = self.try_merge_rest(e, i, last, f, isand)
                if merged is not None:
                    return merged
            t = self.truthy(last)
            if isand and not t:
                return False if isinstance(last, SBool) else last
            if not isand and t:
                return True if isinstance(last, SBool) else last
        return isand if isinstance(last, SBool) else last

    def try_merge_rest(self, e, i, first, f, isand):
        """`a and b and c` with symbolic bool a: evaluate the rest under the assumption a (resp. not a) without
        forking; on success return one And/Or term.  Otherwise None (caller forks)."""
        if self.no_branch:
            mp = True
        else:
            mp = self.merge_point()
            if mp is False:
                return None
        guard = first.t if isand else z3.Not(first.t)
        saved = (len(self.pc), len(self.path_obligations), len(self.writes), dict(self.heap))
        self.pc.append(guard)
        self.no_branch += 1
        try:
            terms = [first.t]
            for x in e.values[i + 1:]:
                v = self.eval(x, f)
                v = concretize(v) if is_sym(v) else v
                if isinstance(v, bool):
                    terms.append(z3.BoolVal(v))
                elif isinstance(v, SBool):
                    terms.append(v.t)
                else:
                    raise MergeAbort()
                # later operands are evaluated only when the earlier ones let evaluation continue
                self.pc.append(terms[-1] if isand else z3.Not(terms[-1]))
            ok = True
        except (MergeAbort, Raised, Unsupported):
            ok = False
        finally:
            self.no_branch -= 1
            del self.pc[saved[0]:]
        ok = ok and len(self.writes) == saved[2]
        if mp == "try":
            self.merge_done(ok)
        if not ok:
            del self.path_obligations[saved[1]:]
            del self.writes[saved[2]:]
            self.heap = saved[3]
            if self.no_branch:
                raise MergeAbort()
            return None
        return SBool(z3.And(*terms) if isand else z3.Or(*terms))

    def e_IfExp(self, e, f):
        c = self.eval(e.test, f)
        c = concretize(c) if is_sym(c) else c
        mp = False
        if isinstance(c, SBool):
            mp = True if self.no_branch else self.merge_point()
        if mp is not False:
            saved = (len(self.pc), len(self.path_obligations), len(self.writes), dict(self.heap))
            self.no_branch += 1
            try:
                self.pc.append(c.t)
                a = self.eval(e.body, f)
                self.pc[-1] = z3.Not(c.t)
                b = self.eval(e.orelse, f)
                a, b = (concretize(x) if is_sym(x) else x for x in (a, b))
                if len(self.writes) != saved[2]:
                    raise MergeAbort()
                r = self.ite(c.t, a, b)
            except (MergeAbort, Raised, Unsupported):
                r = None
            finally:
                self.no_branch -= 1
                del self.pc[saved[0]:]
            if mp == "try":
                self.merge_done(r is not None)
            if r is not None:
                return r
            del self.path_obligations[saved[1]:]
            del self.writes[saved[2]:]
            self.heap = saved[3]
            if self.no_branch:
                raise MergeAbort()
        return self.eval(e.body, f) if self.truthy(c) else self.eval(e.orelse, f)

    def ite(self, c, a, b):
        if isinstance(a, (bool, SBool)) and isinstance(b, (bool, SBool)):
            return SBool(z3.If(c, lift_bool(a), lift_bool(b)))
        if isinstance(a, (int, SInt)) and isinstance(b, (int, SInt)) and not isinstance(a, bool) \
                and not isinstance(b, bool):
            return SInt(z3.If(c, lift_int(a), lift_int(b)))
        if isinstance(a, (str, SStr)) and isinstance(b, (str, SStr)):
            a, b = lift_str(a), lift_str(b)
            if len(a) == len(b):
                return SStr([z3.If(c, x, y) for x, y in zip(a.chars, b.chars)])
        raise MergeAbort()

    def e_BinOp(self, e, f):
        return self.binop(e.op, self.eval(e.left, f), self.eval(e.right, f))

    def binop(self, op, a, b):
        a, b = payload(a), payload(b)
        if isinstance(op, ast.Add) and is_strlike(a) and is_strlike(b):
            if isinstance(a, SFn) or isinstance(b, SFn):
                return self.concat_fn(a, b)
            return self.concat([a, b])
        if isinstance(op, ast.Mult) and (isinstance(a, str) or isinstance(b, str)):
            s, n = (a, b) if isinstance(a, str) else (b, a)
            n = concretize(n) if is_sym(n) else n
            if is_sym(n):
                raise Unsupported("str * symbolic int")
            return s * n
        if isinstance(op, ast.Mod) and isinstance(a, str):
            raise Unsupported("printf-style formatting")
        if is_sym(a) or is_sym(b):
            x, y = lift_int(a), lift_int(b)
            if isinstance(op, ast.Add):
                return SInt(x + y)
            if isinstance(op, ast.Sub):
                return SInt(x - y)
            if isinstance(op, ast.Mult):
                return SInt(x * y)
            if isinstance(op, (ast.Mod, ast.FloorDiv)):
                ys = simp(y)
                if not z3.is_int_value(ys):
                    if self.branch(SBool(y == 0)):
                        raise Raised(ZeroDivisionError())
                    if not self.entails(y > 0):
                        raise Unsupported("mod/div by a possibly negative term")
                elif ys.as_long() == 0:
                    raise Raised(ZeroDivisionError())
                elif ys.as_long() < 0:
                    raise Unsupported("mod/div by negative constant")
                # for y > 0, z3's mod/div (Euclidean) coincide with Python's floor mod/div
                if isinstance(op, ast.FloorDiv) and z3.is_int_value(ys):
                    e = exact_div(simp(x), ys.as_long())
                    if e is not None:
                        return SInt(e)
                return SInt(x % y) if isinstance(op, ast.Mod) else SInt(x / y)
            raise Unsupported(f"binop {type(op).__name__} on symbolic ints")
        table = {ast.Add: operator.add, ast.Sub: operator.sub, ast.Mult: operator.mul, ast.Mod: operator.mod,
                 ast.FloorDiv: operator.floordiv, ast.Pow: operator.pow, ast.BitOr: operator.or_,
                 ast.BitAnd: operator.and_, ast.Div: operator.truediv, ast.BitXor: operator.xor}
        try:
            r = table[type(op)](a, b)
        except (TypeError, ZeroDivisionError, ValueError) as ex:
            raise Raised(ex)
        if isinstance(r, (list, dict, set)):
            self.alloc(r)
        return r

    def concat_fn(self, a, b):
        def norm(x):
            if isinstance(x, SFn):
                return x
            x = lift_str(self.materialize(x) if isinstance(x, SDecStr) else x)
            chars = x.chars

            def at(i, chars=chars):
                t = chars[-1] if chars else z3.IntVal(0)
                for k in range(len(chars) - 2, -1, -1):
                    t = z3.If(i == k, chars[k], t)
                return t
            return SFn(z3.IntVal(len(chars)), at, "lit")
        a, b = norm(a), norm(b)
        return SFn(a.len + b.len, (lambda i, a=a, b=b: z3.If(i < a.len, a.at(i), b.at(i - a.len))),
                   f"({a.name}+{b.name})")

    def e_Compare(self, e, f):
        left = self.eval(e.left, f)
        res = None
        for op, r in zip(e.ops, e.comparators):
            right = self.eval(r, f)
            c = self.compare(op, left, right)
            res = c if res is None else self.and_(res, c)
            left = right
        return concretize(res) if is_sym(res) else res

    def and_(self, a, b):
        if a is False or b is False:
            return False
        if a is True:
            return b
        if b is True:
            return a
        return SBool(z3.And(lift_bool(a), lift_bool(b)))

    def not_(self, r):
        return (not r) if isinstance(r, bool) else SBool(z3.Not(r.t))

    def str_eq(self, a, b):
        a, b = payload(a), payload(b)
        if isinstance(a, str) and isinstance(b, str):
            return a == b
        if isinstance(a, SFn) or isinstance(b, SFn):
            return self.fn_eq(a, b)
        if isinstance(a, SDecStr) or isinstance(b, SDecStr):
            return self.dec_eq(a, b)
        a, b = lift_str(a), lift_str(b)
        if len(a) != len(b):
            return False
        if not len(a):
            return True
        return concretize(SBool(z3.And(*[x == y for x, y in zip(a.chars, b.chars)])))

    def fn_eq(self, a, b):
        if isinstance(b, SFn) and not isinstance(a, SFn):
            a, b = b, a
        n = self.pin_length(a)
        if n is not None:
            return self.str_eq(self.vector_of(a, n), b if not isinstance(b, SFn) else b)
        if isinstance(b, SFn):
            raise Unsupported("equality of two symbolic-length strings")
        b = lift_str(self.materialize(b) if isinstance(b, SDecStr) else b)
        return concretize(SBool(z3.And(a.len == len(b), *[a.at(z3.IntVal(i)) == c for i, c in enumerate(b.chars)])))

    def dec_eq(self, a, b):
        """SDecStr == fixed-length string without forking when the SDecStr is a single Dec piece"""
        if isinstance(b, SDecStr) and not isinstance(a, SDecStr):
            a, b = b, a
        if isinstance(b, SDecStr):
            a, b = self.materialize(a), self.materialize(b)
            return self.str_eq(a, b)
        b = lift_str(b)
        if len(a.pieces) == 1 and isinstance(a.pieces[0], Dec):
            v = a.pieces[0].v
            n = len(b)
            if n == 0:
                return False
            digits = [z3.And(c >= 48, c <= 57) for c in b.chars]
            val = z3.IntVal(0)
            for c in b.chars:
                val = val * 10 + (c - 48)
            lead = z3.BoolVal(True) if n == 1 else b.chars[0] != 48
            return concretize(SBool(z3.And(*digits, lead, v == val)))
        return self.str_eq(self.materialize(a), b)

    def compare(self, op, a, b):
        a0, b0 = a, b
        a, b = payload(a), payload(b)
        if isinstance(op, (ast.In, ast.NotIn)):
            if isinstance(b, dict) and not is_strlike(a):
                a = self.hashable(a)
                r = a in b
            elif isinstance(b, dict) and isinstance(a, (SStr, SFn, SDecStr)):
                cs = [self.str_eq(a, k) for k in b if isinstance(k, str)]
                r = self.or_all(cs)
            elif isinstance(b, dict):
                r = a in b
            elif is_strlike(b) and is_strlike(a) and not isinstance(b, (list, tuple)):
                r = self.substr_in(a, b)
            elif isinstance(b, range) and isinstance(a, SInt):
                # membership in a concrete range is arithmetic (never enumerate: range(400_000_000, 499_999_999))
                if b.step > 0:
                    r = SBool(z3.And(a.t >= b.start, a.t < b.stop, (a.t - b.start) % b.step == 0))
                else:
                    r = SBool(z3.And(a.t <= b.start, a.t > b.stop, (b.start - a.t) % (-b.step) == 0))
            elif isinstance(b, range) and isinstance(a, int) and not isinstance(a, bool):
                r = a in b
            else:
                items = self.iterate(b)
                if is_strlike(a):
                    cs = [self.str_eq(a, it) if is_strlike(it) else False for it in items]
                else:
                    cs = [self.compare(ast.Eq(), a, it) for it in items]
                r = self.or_all(cs)
            return self.not_(r) if isinstance(op, ast.NotIn) else r
        if isinstance(op, (ast.Is, ast.IsNot)):
            if type(a).__name__ == "SBoolMatch" and b is None or type(b).__name__ == "SBoolMatch" and a is None:
                t = z3.Not((a if b is None else b).t)
                return SBool(t) if isinstance(op, ast.Is) else SBool(z3.Not(t))
            if isinstance(a, SBool) and isinstance(b, bool) or isinstance(b, SBool) and isinstance(a, bool):
                sb, cb = (a, b) if isinstance(a, SBool) else (b, a)
                t = sb.t if cb else z3.Not(sb.t)
                return SBool(t) if isinstance(op, ast.Is) else SBool(z3.Not(t))
            if isinstance(a0, SObj) or isinstance(b0, SObj):
                r = a0 is b0            # objects created during the run have an identity
            elif is_sym(a) or is_sym(b):
                if a is None or b is None:
                    r = False
                else:
                    raise Unsupported("identity test on symbolic value")
            else:
                r = a0 is b0
            return r if isinstance(op, ast.Is) else not r
        if is_strlike(a) and is_strlike(b):
            if isinstance(op, (ast.Eq, ast.NotEq)):
                r = self.str_eq(a, b)
                return r if isinstance(op, ast.Eq) else self.not_(r)
            return self.str_order(op, a, b)
        if is_strlike(a) != is_strlike(b) and (is_sym(a) or is_sym(b)):
            if isinstance(op, ast.Eq):
                return False
            if isinstance(op, ast.NotEq):
                return True
            raise Raised(TypeError("unorderable"))
        if is_sym(a) or is_sym(b):
            if isinstance(a, (SBool, bool)) and isinstance(b, (SBool, bool)) and isinstance(op, (ast.Eq, ast.NotEq)):
                t = lift_bool(a) == lift_bool(b)
                return SBool(t if isinstance(op, ast.Eq) else z3.Not(t))
            if a is None or b is None:
                if isinstance(op, ast.Eq):
                    return False
                if isinstance(op, ast.NotEq):
                    return True
            x, y = lift_int(a), lift_int(b)
            t = {ast.Eq: x == y, ast.NotEq: x != y, ast.Lt: x < y, ast.LtE: x <= y, ast.Gt: x > y,
                 ast.GtE: x >= y}[type(op)]
            return SBool(t)
        fn = {ast.Eq: operator.eq, ast.NotEq: operator.ne, ast.Lt: operator.lt, ast.LtE: operator.le,
              ast.Gt: operator.gt, ast.GtE: operator.ge}[type(op)]
        try:
            return fn(a0 if not isinstance(a0, SObj) else a, b0 if not isinstance(b0, SObj) else b)
        except TypeError as ex:
            raise Raised(ex)

    def or_all(self, cs):
        if any(c is True for c in cs):
            return True
        cs = [c for c in cs if c is not False]
        return SBool(z3.Or(*[c.t for c in cs])) if cs else False

    def substr_in(self, a, b):
        if isinstance(a, SDecStr):
            a = self.materialize(a)
        if isinstance(b, SDecStr):
            b = self.materialize(b)
        if isinstance(a, SFn) or isinstance(b, SFn):
            raise Unsupported("substring test on symbolic-length string")
        a, b = lift_str(a), lift_str(b)
        n, m = len(a), len(b)
        if n > m:
            return False
        if n == 0:
            return True
        cs = [self.str_eq(SStr(b.chars[i:i + n]), a) for i in range(m - n + 1)]
        return self.or_all(cs)

    def str_order(self, op, a, b):
        if isinstance(a, str) and isinstance(b, str):
            return {ast.Lt: operator.lt, ast.LtE: operator.le, ast.Gt: operator.gt, ast.GtE: operator.ge}[type(op)](a, b)
        if isinstance(a, (SFn, SDecStr)) or isinstance(b, (SFn, SDecStr)):
            raise Unsupported("ordering of symbolic-length strings")
        a, b = lift_str(a), lift_str(b)
        # lexicographic a < b over code points
        def lt(i):
            if i == len(a.chars) and i == len(b.chars):
                return z3.BoolVal(False)
            if i == len(a.chars):
                return z3.BoolVal(True)
            if i == len(b.chars):
                return z3.BoolVal(False)
            return z3.Or(a.chars[i] < b.chars[i], z3.And(a.chars[i] == b.chars[i], lt(i + 1)))
        eq = lift_bool(self.str_eq(a, b))
        t = {ast.Lt: lt(0), ast.LtE: z3.Or(lt(0), eq), ast.Gt: z3.And(z3.Not(lt(0)), z3.Not(eq)),
             ast.GtE: z3.Not(lt(0))}[type(op)]
        return SBool(t)

    def iterate(self, v):
        v = payload(v)
        if isinstance(v, SDecStr):
            v = self.materialize(v)
        if isinstance(v, SStr):
            return [concretize(SStr([c])) for c in v.chars]
        if isinstance(v, SFn):
            n = self.pin_length(v)
            if n is None:
                raise Unsupported("iteration over a string of unpinned symbolic length")
            return [SStr([v.at(z3.IntVal(i))]) for i in range(n)]
        if isinstance(v, SCycle):
            raise Unsupported("bare cycle iteration")
        if isinstance(v, (itertools.cycle, itertools.count, itertools.repeat)) or (
                hasattr(v, "__next__") and id(v) not in self.local_ids and not isinstance(v, (zip, map, enumerate, reversed, filter))):
            # a live iterator that outlives the call: consuming it changes process-wide state (C15) and its
            # position is unknown to the verifier
            self.writes.append(dict(kind="iterator", target=type(v).__name__, attr="<position>", shared=True,
                                    where="<iteration>", line=0))
            from .values import FrameViolation
            raise FrameViolation(f"consuming a shared {type(v).__name__} iterator that outlives the call")
        if isinstance(v, (set, frozenset)) and len(v) > 1 and any(isinstance(x, (str, bytes)) for x in v):
            # iteration order of a set of str depends on PYTHONHASHSEED (C13 reproducibility)
            self.hash_ordered.append(len(v))
        if isinstance(v, (list, tuple, str, range, set, frozenset, dict)):
            return list(v)
        if isinstance(v, enum.EnumType):
            return list(v)
        if type(v).__name__ in ("dict_items", "dict_keys", "dict_values"):
            return list(v)
        if isinstance(v, (zip, map, enumerate, reversed, filter)) or hasattr(v, "__next__"):
            return list(v)
        raise Unsupported(f"iterate {type(v).__name__}")

    def comp(self, e, f, kind="list"):
        out = [] if kind != "dict" else {}

        def rec(i, fr):
            if i == len(e.generators):
                if kind == "dict":
                    out[self.hashable(self.eval(e.key, fr))] = self.eval(e.value, fr)
                else:
                    out.append(self.eval(e.elt, fr))
                return
            g = e.generators[i]
            for item in self.iterate(self.eval(g.iter, fr)):
                self.assign(g.target, item, fr)
                if all(self.truthy(self.eval(c, fr)) for c in g.ifs):
                    rec(i + 1, fr)
        rec(0, f.child())
        return self.alloc(out)

    def e_GeneratorExp(self, e, f):
        return self.comp(e, f)

    def e_ListComp(self, e, f):
        return self.comp(e, f)

    def e_SetComp(self, e, f):
        return self.comp(e, f)

    def e_DictComp(self, e, f):
        return self.comp(e, f, "dict")

    def e_Lambda(self, e, f):
        return Closure(e, f, "<lambda>")

    def e_Starred(self, e, f):
        raise Unsupported("starred expression outside call/tuple")

    def e_Call(self, e, f):
        if isinstance(e.func, ast.Name) and e.func.id == "super" and not e.args and "super" not in f.env:
            target = f.env.get("self", f.env.get("cls"))
            if target is None:
                first = self.get_ast(f.fn).args.args
                target = f.env.get(first[0].arg) if first else None
            return SuperProxy(f.defcls, target)
        fn = self.eval(e.func, f)
        args = []
        for a in e.args:
            if isinstance(a, ast.Starred):
                args.extend(self.iterate(self.eval(a.value, f)))
            else:
                args.append(self.eval(a, f))
        kwargs = {}
        for k in e.keywords:
            if k.arg is None:
                d = self.eval(k.value, f)
                for kk, vv in d.items():
                    kwargs[kk.value if isinstance(kk, enum.Enum) and isinstance(kk, str) else kk] = vv
            else:
                kwargs[k.arg] = self.eval(k.value, f)
        return self.call(fn, args, kwargs)

    def call(self, fn, args, kwargs):
        from . import models
        return models.call(self, fn, args, kwargs)
