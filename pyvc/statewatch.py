"""Snapshot of the library's process-wide mutable state (registries, algorithm objects, module-level containers)."""
from __future__ import annotations

import hashlib
import sys


def _h(x):
    return hashlib.sha256(repr(x).encode("utf-8", "replace")).hexdigest()[:16]


def snapshot():
    from schwifty import registry
    from schwifty.checksum import algorithms
    snap = {}
    for name, v in registry._registry.items():
        if isinstance(v, dict):
            snap[f"registry[{name!r}] keys"] = _h(list(v))
            snap[f"registry[{name!r}] values"] = _h([(k, v[k] if not isinstance(v[k], dict) else sorted(
                (a, repr(b)) for a, b in v[k].items())) for k in v])
        else:
            snap[f"registry[{name!r}]"] = _h(v)
    for k, a in algorithms.items():
        snap[f"algorithms[{k!r}]"] = _h(sorted((n, repr(val)) for n, val in vars(a).items()
                                               if not repr(type(val)).startswith("<class '_thread._local")))
    snap["algorithms keys"] = _h(sorted(algorithms))
    for mname in sorted(m for m in sys.modules if m == "schwifty" or m.startswith("schwifty.")):
        mod = sys.modules[mname]
        for g, v in vars(mod).items():
            if isinstance(v, (dict, list, set)) and not g.startswith("__") and g not in ("_registry", "algorithms"):
                snap[f"{mname}.{g}"] = _h(sorted(v, key=repr) if isinstance(v, set) else v)
            elif hasattr(v, "cache_info") and callable(v):
                snap[f"{mname}.{g} (cache)"] = repr(v.cache_info().currsize)
    return snap


def diff(a, b):
    return sorted(k for k in set(a) | set(b) if a.get(k) != b.get(k))
