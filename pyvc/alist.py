"""Abstract lists for pyvc: sequences of unknown length whose elements are objects of one repo str subclass (C12).

An AList has a length term n, and an element function: index term -> Elem term (uninterpreted sort).  The text of
an element is described by uninterpreted functions ElemLen(e), ElemAt(e, i); `obj_of(I, e)` builds the SObj (live
class + symbolic-length payload) the interpreter works with, and remembers the element term on it.

Supported operations (all others are `Unsupported`, never silently approximated):
  len(xs), xs[0], xs[-1] after sorted(), truthiness, `[c for c in xs if cond(c)]` (filter: the condition is
  evaluated for ONE generic element by a nested exploration of all its paths and kept as a predicate),
  sorted(xs) (assumed contract: a permutation of xs; only [-1] / [0] may be taken: a member)."""
from __future__ import annotations

import z3

Elem = z3.DeclareSort("Elem")
ElemLen = z3.Function("ElemLen", Elem, z3.IntSort())
ElemAt = z3.Function("ElemAt", Elem, z3.IntSort(), z3.IntSort())


class AList:
    def __init__(self, cls, n, elem, member=None, name="xs", sorted_=False, pred=None, base=None):
        self.cls, self.n, self.elem, self.name, self.sorted_ = cls, n, elem, name, sorted_
        self.pred = pred        # filter predicate over Elem terms (None: every element of base)
        self.base = base        # the list this one was filtered from

    def contains(self, e):
        """formula: element term e occurs in this list"""
        if self.base is not None:
            return z3.And(self.base.contains(e), self.pred(e))
        j = z3.Int("j!" + self.name)
        return z3.Exists([j], z3.And(j >= 0, j < self.n, self.elem(j) == e))

    def nonempty(self):
        if self.base is not None:
            j = z3.Int("jf!" + self.name)
            root = self.root()
            return z3.Exists([j], z3.And(j >= 0, j < root.n, self.holds(root.elem(j))))
        return self.n > 0

    def root(self):
        if self.base is not None and not hasattr(self, "make_element"):
            return self.base.root()
        return self

    def holds(self, e):
        """conjunction of the filter predicates down to the root, for element term e"""
        if self.base is None:
            return z3.BoolVal(True)
        return z3.And(self.base.holds(e), self.pred(e))
