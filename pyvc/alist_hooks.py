"""Interpreter hooks for abstract lists (installed on demand: `install()`)."""
from __future__ import annotations

import ast

import z3

from . import interp as _interp
from . import models as _models
from .alist import AList, Elem, ElemAt, ElemLen
from .values import Raised, SBool, SFn, SInt, SObj, Unsupported, concretize, is_sym

_installed = False


def obj_of(I, cls, e, valid=None):
    """the interpreter-level object for element term e: instance of `cls` whose text is (ElemLen(e), ElemAt(e, .))"""
    from contracts import common as CC
    seen = {}

    def at(i, e=e):
        i = z3.simplify(i) if z3.is_expr(i) else z3.IntVal(i)
        t = ElemAt(e, i)
        if t.get_id() not in seen:
            seen[t.get_id()] = t
            I.assumptions.append(z3.Implies(z3.And(i >= 0, i < ElemLen(e)), z3.And(CC.Fix(t), CC.fix_facts(t))))
        return t
    p = SFn(ElemLen(e), at, f"text({e})")
    p.all_fix = True
    p.upper_closed = True
    I.assumptions.append(ElemLen(e) >= 0)
    if valid is not None:
        I.assumptions.append(valid(e))
    o = SObj(cls, p)
    o.elem_term = e
    I.keep.append(o)
    return o


def install():
    global _installed
    if _installed:
        return
    _installed = True
    Interp = _interp.Interp

    orig_len = _models.BUILTIN_MODELS[len]

    def m_len(I, v):
        if isinstance(v, AList):
            if v.base is not None:
                raise Unsupported("len() of a filtered abstract list")
            return SInt(v.n)
        return orig_len(I, v)
    _models.BUILTIN_MODELS[len] = m_len

    orig_truthy = Interp.truthy

    def truthy(self, v):
        if isinstance(v, AList):
            return self.branch(SBool(v.nonempty()))
        return orig_truthy(self, v)
    Interp.truthy = truthy

    orig_index = Interp.index

    def index(self, obj, idx):
        if isinstance(obj, AList):
            idx = concretize(idx) if is_sym(idx) else idx
            if not isinstance(idx, int):
                raise Unsupported("abstract list indexed with a symbolic index")
            if obj.sorted_:
                if idx not in (0, -1):
                    raise Unsupported("only the first / last element of sorted(abstract list) is modelled")
                if not self.branch(SBool(obj.nonempty())):
                    raise Raised(IndexError("list index out of range"))
                # assumed contract of sorted(): a permutation of its argument - its extreme element is a member
                self.elem_n = getattr(self, "elem_n", 0) + 1
                m = z3.Const(f"extreme!{self.elem_n}", Elem)
                # guarded by non-emptiness: assumptions are global, this fact only holds where the list has elements
                self.assumptions.append(z3.Implies(obj.nonempty(), z3.And(obj.root().contains(m), obj.holds(m))))
                return obj_of(self, obj.cls, m, getattr(obj.root(), "valid", None))
            if obj.base is not None:
                raise Unsupported("indexing a filtered abstract list")
            if idx < 0:
                raise Unsupported("negative index into an abstract list")
            if not self.branch(SBool(obj.n > idx)):
                raise Raised(IndexError("list index out of range"))
            return obj_of(self, obj.cls, obj.elem(z3.IntVal(idx)), getattr(obj, "valid", None))
        return orig_index(self, obj, idx)
    Interp.index = index

    orig_sorted = _models.BUILTIN_MODELS[sorted]

    def m_sorted(I, it, key=None, reverse=False):
        if isinstance(it, AList) and key is not None:
            root = it.root()
            make = getattr(root, "make_element", None)
            if make is None or it.base is not None:
                raise Unsupported("sorted(abstract list, key=...)")
            I.elem_n = getattr(I, "elem_n", 0) + 1
            g = z3.Const(f"generic!{I.elem_n}", Elem)
            kv = I.call(key, [make(I, g)], {})
            r = AList(it.cls, it.n, it.elem, name=it.name + "_sortedby", sorted_=True, pred=(lambda e: z3.BoolVal(True)), base=it)
            r.sort_key = (g, kv, bool(reverse))
            r.make_element = make
            r.describe_map = getattr(root, "describe_map", None)
            return r
        if isinstance(it, AList):
            r = AList(it.cls, it.n, it.elem, name=it.name + "_sorted", sorted_=True, pred=it.pred, base=it.base)
            if it.base is None:
                r.base, r.pred = it, (lambda e: z3.BoolVal(True))
            return r
        return orig_sorted(I, it, key=key, reverse=reverse)
    _models.BUILTIN_MODELS[sorted] = m_sorted

    orig_comp = Interp.comp

    def comp(self, e, f, kind="list"):
        if len(e.generators) == 1 and kind == "list":
            g0 = e.generators[0]
            src = self.eval(g0.iter, f)
            if isinstance(src, AList):
                if not isinstance(g0.target, ast.Name):
                    raise Unsupported("comprehension over an abstract list with a non-name target")
                identity = isinstance(e.elt, ast.Name) and e.elt.id == g0.target.id
                from . import task as T
                self.elem_n = getattr(self, "elem_n", 0) + 1
                gterm = z3.Const(f"generic!{self.elem_n}", Elem)
                root = src.root()
                fr = f.child()
                ifs = g0.ifs
                name = g0.target.id
                ctx = list(self.pc)
                outer_assumed = len(self.assumptions)

                make = getattr(root, "make_element", None)

                def element():
                    return make(self, gterm) if make is not None else obj_of(self, src.cls, gterm, getattr(root, "valid", None))

                def cond_fn():
                    fr.env[name] = element()
                    for c in ifs:
                        if not self.truthy(self.eval(c, fr)):
                            return False
                    return True
                formula = _nested_formula(self, cond_fn, ctx)
                pred = (lambda el, formula=formula, gterm=gterm: z3.substitute(formula, (gterm, el)))
                out = AList(src.cls, src.n, src.elem, name=f"{src.name}_f{self.elem_n}", pred=pred, base=src)
                if not identity:
                    # mapped comprehension [f(c) for c in xs if ...]: f is evaluated for the generic element on every path
                    # that passes the filter; the task supplies `describe_map` to turn the results into a description
                    results = []

                    def map_fn():
                        el = element()
                        fr.env[name] = el
                        for c in ifs:
                            if not self.truthy(self.eval(c, fr)):
                                return True
                        v = self.eval(e.elt, fr)
                        results.append((el, v))
                        return True
                    try:
                        _nested_formula(self, map_fn, ctx)
                        out.map_error = None
                    except Unsupported as u:
                        if "raised" not in str(u):
                            raise
                        out.map_error = str(u)
                    describe = getattr(root, "describe_map", None)
                    if describe is None:
                        raise Unsupported("mapped comprehension over an abstract list without a map description")
                    out.map_desc = describe(results)
                return out
            f.env["__comp_iter__"] = src
            e2 = ast.copy_location(type(e)(**{k: getattr(e, k) for k in e._fields}), e)
            e2.generators = [ast.comprehension(target=g0.target, iter=ast.copy_location(
                ast.Name(id="__comp_iter__", ctx=ast.Load()), e), ifs=g0.ifs, is_async=0)]
            return orig_comp(self, e2, f, kind)
        return orig_comp(self, e, f, kind)
    Interp.comp = comp

    orig_getattr = Interp.getattr

    def getattr_(self, obj, name):
        if isinstance(obj, AList):
            raise Unsupported(f"list.{name} on an abstract list")
        return orig_getattr(self, obj, name)
    Interp.getattr = getattr_

    orig_iterate = Interp.iterate

    def iterate(self, v):
        if isinstance(v, AList):
            raise Unsupported("iteration over an abstract list outside a filtering comprehension")
        return orig_iterate(self, v)
    Interp.iterate = iterate


def _nested_formula(I, thunk, ctx):
    """explore `thunk` on all its paths under the path condition ctx and return the formula 'thunk() is True'
    (relative to ctx); the interpreter's path state is saved and restored"""
    saved = (I.decisions, I.pos, I.pc, I.heap, I.writes, I.local_ids, I.path_obligations, I.keep, I.defs,
             getattr(I, "amaps", None), getattr(I, "generic", None), I.cur_model, I.cur_model_key)
    saved_base = list(getattr(I, "base_pc", ()))
    I.base_pc = list(ctx)
    parts = []
    try:
        for p in I.explore(thunk):
            if p["kind"] != "return":
                raise Unsupported(f"condition of a comprehension over an abstract list raised {p['value']!r}")
            if p["value"] is True:
                parts.append(z3.And(*p["pc"][len(ctx):]) if p["pc"][len(ctx):] else z3.BoolVal(True))
    finally:
        I.base_pc = saved_base
        (I.decisions, I.pos, I.pc, I.heap, I.writes, I.local_ids, I.path_obligations, I.keep, I.defs,
         am, gen, I.cur_model, I.cur_model_key) = saved
        if am is not None:
            I.amaps = am
            I.generic = gen
    return z3.Or(*parts) if parts else z3.BoolVal(False)
