"""Interpreter hooks for abstract maps (installed on demand by tasks that need them: `install()`)."""
from __future__ import annotations

import ast
import itertools

import z3

from . import interp as _interp
from . import models as _models
from .amap import AChain, AItems, AMap, ASet, Generic, SKey, SVal, is_map
from .values import Raised, SBool, Special, Unsupported, concretize, is_sym

_installed = False


def amap_of(I, obj):
    return getattr(I, "amaps", {}).get(id(obj)) if isinstance(obj, dict) else (obj if isinstance(obj, AMap) else None)


def register(I, d, amap, local=True):
    """declare the python dict object `d` to stand for the abstract map `amap` (local=False: an argument of the
    function under verification - writing to it is a frame violation)"""
    if not hasattr(I, "amaps"):
        I.amaps = {}
    I.amaps[id(d)] = amap
    I.keep.append(d)
    if local:
        I.local_ids.add(id(d))
    return d


def current(I, d):
    """state of dict d as seen inside a generic iteration: pending write at the loop key first"""
    return amap_of(I, d)


def install():
    global _installed
    if _installed:
        return
    _installed = True
    Interp = _interp.Interp

    # ------------------------------------------------------------------ reset per path
    orig_reset = Interp.reset_path

    def reset_path(self, decisions):
        orig_reset(self, decisions)
        self.amaps = {}
        self.generic = None
    Interp.reset_path = reset_path

    # ------------------------------------------------------------------ subscripts
    orig_index = Interp.index

    def index(self, obj, idx):
        am = amap_of(self, obj)
        if isinstance(idx, SKey):
            if am is None:
                if isinstance(obj, dict) and not obj:
                    raise Raised(KeyError("<abstract key>"))
                raise Unsupported("abstract key on a concrete container")
            g = self.generic
            if g is not None:
                if idx.t.get_id() != g.kk.get_id():
                    raise Unsupported("non-pointwise loop: abstract dict read at a key other than the loop key")
                w = g.writes.get(id(obj))
                has = am.has(idx.t) if w is None else z3.Or(w[0], am.has(idx.t))
                val = am.get(idx.t) if w is None else z3.If(w[0], w[1], am.get(idx.t))
            else:
                has, val = am.has(idx.t), am.get(idx.t)
            if not self.entails(has):
                if self.generic is not None:
                    raise Unsupported("possibly missing key inside a generic iteration")
                if not self.branch(SBool(has)):
                    raise Raised(KeyError("<abstract key>"))
            return SVal(val)
        if am is not None:
            raise Unsupported("abstract dict indexed with a concrete key")
        return orig_index(self, obj, idx)
    Interp.index = index

    orig_assign = Interp.assign

    def assign(self, t, v, f):
        if isinstance(t, ast.Subscript):
            obj = self.eval(t.value, f)
            if isinstance(obj, dict):
                key = self.eval(t.slice, f)
                if isinstance(key, SKey):
                    if id(obj) not in self.local_ids:
                        from .values import FrameViolation
                        raise FrameViolation(f"write into a shared dict at {f.qual}:{t.lineno}")
                    if amap_of(self, obj) is None:
                        if obj:
                            raise Unsupported("abstract key stored into a non-empty concrete dict")
                        register(self, obj, AMap.empty())
                    if not isinstance(v, SVal):
                        raise Unsupported("non-abstract value stored under an abstract key")
                    g = self.generic
                    if g is None:
                        am = amap_of(self, obj)
                        k0 = key.t
                        self.amaps[id(obj)] = AMap(lambda q, am=am, k0=k0: z3.Or(q == k0, am.has(q)),
                                                   lambda q, am=am, k0=k0, vt=v.t: z3.If(q == k0, vt, am.get(q)))
                        return
                    if key.t.get_id() != g.kk.get_id():
                        raise Unsupported("non-pointwise loop: abstract dict written at a key other than the loop key")
                    g.writes[id(obj)] = (z3.BoolVal(True), v.t)
                    return
                if amap_of(self, obj) is not None:
                    raise Unsupported("concrete key stored into an abstract dict")
        return orig_assign(self, t, v, f)
    Interp.assign = assign

    # ------------------------------------------------------------------ membership / truthiness
    orig_compare = Interp.compare

    def compare(self, op, a, b):
        if isinstance(op, (ast.In, ast.NotIn)) and isinstance(a, SKey):
            am = amap_of(self, b)
            if am is None and isinstance(b, dict) and not b:
                r = False
            elif am is None:
                raise Unsupported("abstract key membership in a concrete container")
            else:
                g = self.generic
                has = am.has(a.t)
                if g is not None:
                    if a.t.get_id() != g.kk.get_id():
                        raise Unsupported("non-pointwise loop: membership test at a key other than the loop key")
                    w = g.writes.get(id(b))
                    if w is not None:
                        has = z3.Or(w[0], has)
                r = SBool(has)
            return self.not_(r) if isinstance(op, ast.NotIn) else r
        return orig_compare(self, op, a, b)
    Interp.compare = compare

    # ------------------------------------------------------------------ if inside a generic iteration: merge
    orig_if = Interp.x_If

    def x_If(self, s, f):
        g = self.generic
        if g is None:
            return orig_if(self, s, f)
        c = self.eval(s.test, f)
        c = concretize(c) if is_sym(c) else c
        if not isinstance(c, SBool):
            return self.exec_block(s.body if self.truthy(c) else s.orelse, f)
        env0 = dict(f.env)
        self.pc.append(c.t)
        g1 = g.copy()
        self.generic = g1
        try:
            self.exec_block(s.body, f)
            env1 = dict(f.env)
            f.env.clear()
            f.env.update(env0)
            self.pc[-1] = z3.Not(c.t)
            g2 = g.copy()
            self.generic = g2
            self.exec_block(s.orelse, f)
            env2 = dict(f.env)
        finally:
            self.pc.pop()
            self.generic = g
        # merge pending writes
        for d in set(g1.writes) | set(g2.writes):
            w0 = g.writes.get(d, (z3.BoolVal(False), None))
            w1 = g1.writes.get(d, w0)
            w2 = g2.writes.get(d, w0)
            cond = z3.If(c.t, w1[0], w2[0])
            v1 = w1[1] if w1[1] is not None else w2[1]
            v2 = w2[1] if w2[1] is not None else w1[1]
            g.writes[d] = (cond, z3.If(c.t, v1, v2))
        # a local that the two sides bind differently has no single value after the merged `if`: poison it
        f.env.clear()
        f.env.update(env0)
        for k in set(env1) | set(env2):
            a, b = env1.get(k, _MISSING), env2.get(k, _MISSING)
            if a is b:
                f.env[k] = a
            elif k in env0 and a is env0[k] and b is env0[k]:
                f.env[k] = a
            else:
                f.env[k] = Poison(k)
    Interp.x_If = x_If

    # ------------------------------------------------------------------ loops over abstract collections
    orig_for = Interp.x_For

    def x_For(self, s, f):
        it = self.eval(s.iter, f)
        parts = None
        if isinstance(it, ASet):
            parts = [("keys", it)]
        elif isinstance(it, AItems):
            parts = [("items", it)]
        elif isinstance(it, AChain):
            parts = [("items" if isinstance(p, AItems) else "keys", p) for p in it.parts]
        elif amap_of(self, it) is not None:
            parts = [("keys", ASet(amap_of(self, it).has))]
        if parts is None:
            s2 = ast.copy_location(ast.For(target=s.target, iter=ast.Constant(value=None), body=s.body, orelse=s.orelse), s)
            f.env["__iter__"] = it
            s2.iter = ast.copy_location(ast.Name(id="__iter__", ctx=ast.Load()), s)
            return orig_for(self, s2, f)
        if self.generic is not None:
            raise Unsupported("nested loop over an abstract collection")
        for kind, coll in parts:
            self.loop_n = getattr(self, "loop_n", 0) + 1
            kk = z3.Const(f"loopkey!{self.loop_n}", _keysort())
            mem = coll.mem(kk) if kind == "keys" else coll.amap.has(kk)
            self.pc.append(mem)
            g = Generic(kk)
            self.generic = g
            try:
                if kind == "keys":
                    self.assign(s.target, SKey(kk), f)
                else:
                    self.assign(s.target, (SKey(kk), SVal(coll.amap.get(kk))), f)
                self.exec_block(s.body, f)
            finally:
                self.generic = None
                self.pc.pop()
            # generalise the effect on the loop key to every key of the collection
            for did, (wc, wv) in g.writes.items():
                am = self.amaps[did]
                memf = (coll.mem if kind == "keys" else coll.amap.has)

                def has(q, am=am, memf=memf, wc=wc, kk=kk):
                    return z3.Or(am.has(q), z3.And(memf(q), z3.substitute(wc, (kk, q))))

                def get(q, am=am, memf=memf, wc=wc, wv=wv, kk=kk):
                    return z3.If(z3.And(memf(q), z3.substitute(wc, (kk, q))), z3.substitute(wv, (kk, q)), am.get(q))
                self.amaps[did] = AMap(has, get, am.name)
        if s.orelse:
            self.exec_block(s.orelse, f)
    Interp.x_For = x_For

    # ------------------------------------------------------------------ attribute / calls
    orig_getattr = Interp.getattr

    def getattr_(self, obj, name):
        am = amap_of(self, obj)
        if am is not None and name in ("items", "keys", "values", "get", "pop", "setdefault", "update", "copy"):
            return Special("amapmethod", obj, name)
        return orig_getattr(self, obj, name)
    Interp.getattr = getattr_

    orig_special = _models.call_special

    def call_special(I, fn, args, kwargs):
        if fn.kind == "amapmethod":
            obj, name = fn.data
            am = amap_of(I, obj)
            if name == "items" and not args:
                return AItems(am)
            if name == "keys" and not args:
                return ASet(am.has)
            if name == "get" and args and isinstance(args[0], SKey):
                from .amap import NONE, is_truthy
                k = args[0].t
                g = I.generic
                has, val = am.has(k), am.get(k)
                if g is not None:
                    if k.get_id() != g.kk.get_id():
                        raise Unsupported("non-pointwise loop: abstract dict read at a key other than the loop key")
                    w = g.writes.get(id(obj))
                    if w is not None:
                        has, val = z3.Or(w[0], has), z3.If(w[0], w[1], val)
                if len(args) > 1 and not (args[1] is None or isinstance(args[1], SVal)):
                    raise Unsupported("dict.get default that is neither None nor abstract")
                default = NONE if len(args) < 2 or args[1] is None else args[1].t
                nf = z3.Not(is_truthy(NONE))
                if not any(a.eq(nf) for a in I.assumptions[-50:]):
                    I.assumptions.append(nf)
                return SVal(z3.If(has, val, default))
            raise Unsupported(f"dict.{name} on an abstract dict")
        return orig_special(I, fn, args, kwargs)
    _models.call_special = call_special

    orig_frozenset = _models.BUILTIN_MODELS[frozenset]

    def m_frozenset(I, it=()):
        am = amap_of(I, it)
        if am is not None:
            return ASet(am.has)
        if isinstance(it, ASet):
            return it
        return orig_frozenset(I, it)
    _models.BUILTIN_MODELS[frozenset] = m_frozenset
    _models.BUILTIN_MODELS[set] = (lambda orig: lambda I, it=(): m_frozenset(I, it) if (amap_of(I, it) is not None or isinstance(it, ASet)) else orig(I, it))(_models.BUILTIN_MODELS[set])

    orig_isinstance = _models.BUILTIN_MODELS[isinstance]

    def m_isinstance(I, v, t):
        if isinstance(v, SVal):
            ts = t if isinstance(t, tuple) else (t,)
            if ts == (dict,):
                return SBool(is_map(v.t))
            raise Unsupported("isinstance of an abstract value against other than dict")
        if amap_of(I, v) is not None:
            return isinstance({}, t)
        return orig_isinstance(I, v, t)
    _models.BUILTIN_MODELS[isinstance] = m_isinstance

    orig_chain = _models.BUILTIN_MODELS[itertools.chain]

    def m_chain(I, *its):
        if any(isinstance(x, (AItems, ASet)) for x in its):
            if not all(isinstance(x, (AItems, ASet)) for x in its):
                raise Unsupported("chain of abstract and concrete iterables")
            return AChain(its)
        return orig_chain(I, *its)
    _models.BUILTIN_MODELS[itertools.chain] = m_chain

    orig_name = Interp.e_Name

    def e_Name(self, e, f):
        v = orig_name(self, e, f)
        if isinstance(v, Poison):
            raise Unsupported(f"local `{v.name}` is bound differently on the two sides of an `if` inside a generic iteration")
        return v
    Interp.e_Name = e_Name

    orig_iterate = Interp.iterate

    def iterate(self, v):
        if amap_of(self, v) is not None or isinstance(v, (ASet, AItems, AChain)):
            raise Unsupported("iteration over an abstract collection outside a `for` loop / key comprehension")
        return orig_iterate(self, v)
    Interp.iterate = iterate

    orig_comp = Interp.comp

    def comp(self, e, f, kind="list"):
        if len(e.generators) == 1 and kind != "dict":
            g0 = e.generators[0]
            src = self.eval(g0.iter, f)
            mem = None
            if isinstance(src, ASet):
                mem = src.mem
            elif amap_of(self, src) is not None:
                mem = amap_of(self, src).has
            if mem is not None:
                # [k for k in <abstract keys> if <conditions on k>]  ->  the abstract set of the selected keys
                if self.generic is not None:
                    raise Unsupported("comprehension over an abstract collection inside a generic iteration")
                self.loop_n = getattr(self, "loop_n", 0) + 1
                kk = z3.Const(f"compkey!{self.loop_n}", _keysort())
                fr = f.child()
                self.generic = Generic(kk)
                self.pc.append(mem(kk))
                try:
                    self.assign(g0.target, SKey(kk), fr)
                    conds = []
                    for c in g0.ifs:
                        v = self.eval(c, fr)
                        v = concretize(v) if is_sym(v) else v
                        if isinstance(v, bool):
                            conds.append(z3.BoolVal(v))
                        elif isinstance(v, SBool):
                            conds.append(v.t)
                        else:
                            raise Unsupported("comprehension condition over an abstract key is not boolean")
                    elt = self.eval(e.elt, fr)
                finally:
                    self.pc.pop()
                    self.generic = None
                if not (isinstance(elt, SKey) and elt.t.get_id() == kk.get_id()):
                    raise Unsupported("comprehension over abstract keys must yield the key itself")
                cond = z3.And(*conds) if conds else z3.BoolVal(True)
                return ASet(lambda q, mem=mem, cond=cond, kk=kk: z3.And(mem(q), z3.substitute(cond, (kk, q))))
            f.env["__comp_iter__"] = src
            e2 = ast.copy_location(type(e)(**{k: getattr(e, k) for k in e._fields}), e)
            g2 = ast.comprehension(target=g0.target, iter=ast.copy_location(ast.Name(id="__comp_iter__", ctx=ast.Load()), e),
                                   ifs=g0.ifs, is_async=0)
            e2.generators = [g2]
            return orig_comp(self, e2, f, kind)
        return orig_comp(self, e, f, kind)
    Interp.comp = comp

    orig_truthy = Interp.truthy

    def truthy(self, v):
        if isinstance(v, SVal):
            from .amap import is_truthy
            return self.branch(SBool(is_truthy(v.t))) if self.generic is None else _no_fork()
        return orig_truthy(self, v)
    Interp.truthy = truthy

    orig_unary = Interp.e_UnaryOp

    def e_UnaryOp(self, e, f):
        if isinstance(e.op, ast.Not):
            v = self.eval(e.operand, f)
            if isinstance(v, SVal):
                from .amap import is_truthy
                return SBool(z3.Not(is_truthy(v.t)))
            f2 = f.child()
            f2.env["__operand__"] = v
            e2 = ast.copy_location(ast.UnaryOp(op=e.op, operand=ast.copy_location(ast.Name(id="__operand__", ctx=ast.Load()), e)), e)
            return orig_unary(self, e2, f2)
        return orig_unary(self, e, f)
    Interp.e_UnaryOp = e_UnaryOp

    orig_binop = Interp.binop

    def binop(self, op, a, b):
        if isinstance(a, ASet) and isinstance(b, ASet):
            if isinstance(op, ast.BitAnd):
                return ASet(lambda k, a=a, b=b: z3.And(a.mem(k), b.mem(k)))
            if isinstance(op, ast.BitOr):
                return ASet(lambda k, a=a, b=b: z3.Or(a.mem(k), b.mem(k)))
            if isinstance(op, ast.Sub):
                return ASet(lambda k, a=a, b=b: z3.And(a.mem(k), z3.Not(b.mem(k))))
        return orig_binop(self, op, a, b)
    Interp.binop = binop


_MISSING = object()


class Poison:
    """a local variable bound differently on the two sides of a merged `if`"""

    def __init__(self, name):
        self.name = name


def _no_fork():
    raise Unsupported("truth value of an abstract value decides control flow inside a generic iteration (use in `if`)")


def _keysort():
    from .amap import Key
    return Key
