"""Call dispatch and models of builtins / external calls (assumed contracts, DESIGN.md section 7)."""
from __future__ import annotations

import ast
import functools
import itertools
import operator
import re
import types

import z3

from . import rx
from .values import (BoundFn, Closure, Dec, Infeasible, Raised, SBool, SCycle, SDecStr, SFn, SInt, SObj, SStr,
                     Special, Unsupported, concretize, deep_sym, is_strlike, is_sym, lift_bool, lift_int,
                     lift_str, payload)


def call(I, fn, args, kwargs):
    if isinstance(fn, BoundFn):
        return I.call_function(fn.fn, [fn.self_obj] + list(args), kwargs, defcls=fn.defcls)
    if isinstance(fn, Closure):
        return I.call_closure(fn, list(args), kwargs)
    if isinstance(fn, Special):
        return call_special(I, fn, args, kwargs)
    if I.is_repo_fn(fn):
        return I.call_function(fn, list(args), kwargs)
    owner = getattr(fn, "__self__", None)
    if owner is not None and getattr(I, "random_model", None) is not None:
        r = I.random_model(I, owner, getattr(fn, "__name__", ""), args, kwargs)
        if r is not NotImplemented:
            return r
    if isinstance(fn, operator.itemgetter) and len(args) == 1 and not kwargs:
        keys = fn.__reduce__()[1]
        vals = [I.index(args[0], k) for k in keys]
        return vals[0] if len(vals) == 1 else tuple(vals)
    if isinstance(fn, functools._lru_cache_wrapper) and I.is_repo_fn(getattr(fn, "__wrapped__", None)):
        return lru_call(I, fn, list(args), kwargs)
    try:
        model = BUILTIN_MODELS.get(fn)
    except TypeError:
        model = None
    if model is not None:
        return model(I, *args, **kwargs)
    if isinstance(fn, type):
        if issubclass(fn, BaseException):
            return fn(*[a if not (is_sym(a) or isinstance(a, SObj)) else "<sym>" for a in args])
        if I.is_repo_cls(fn):
            return construct(I, fn, args, kwargs)
    if isinstance(fn, types.MethodType) and type(fn.__self__).__module__.startswith("pycountry") \
            and fn.__func__ is getattr(type(fn.__self__), "get", None):
        return m_countries_get(I, *args, **kwargs)
    if isinstance(fn, (types.BuiltinMethodType, types.MethodWrapperType)) and \
            isinstance(getattr(fn, "__self__", None), (dict, list, tuple, set, frozenset)):
        return container_method(I, fn, args, kwargs)
    if any(deep_sym(a) for a in args) or any(deep_sym(a) for a in kwargs.values()):
        raise Unsupported(f"external call with symbolic arguments: {getattr(fn, '__qualname__', fn)!r}")
    I.external_calls.add(f"{getattr(fn, '__module__', '?')}.{getattr(fn, '__qualname__', getattr(fn, '__name__', repr(fn)))}")
    try:
        r = fn(*args, **kwargs)
    except Exception as ex:  # noqa: BLE001 - any exception of an external call is an outcome of the path
        raise Raised(ex)
    if isinstance(r, (list, dict, set)):
        I.alloc(r)
    return r


def lru_call(I, fn, args, kwargs):
    """assumed contract of functools.lru_cache: the call returns f(x) freshly computed, or the value cached by an
    EARLIER call f(x') with x' == x (equal and equally hashed - for schwifty's str subclasses: equal text).  The
    earlier argument is an arbitrary object equal to x: same class and text, every other field havocked.  If the
    function's result depends on such a field the cache makes results history dependent (C15)."""
    wrapped = fn.__wrapped__
    clones = [_havoc_clone(I, a) for a in args]
    kclones = {k: _havoc_clone(I, v) for k, v in kwargs.items()}
    changed = any(c is not a for c, a in zip(clones, args)) or any(kclones[k] is not kwargs[k] for k in kwargs)
    if changed and I.branch(SBool(I.fresh("lru_cache_hit", "bool"))):
        I.path_history.append((fn, clones, kclones))
        # the earlier call completed normally (an exception is not cached) and therefore also met the
        # preconditions of everything it called: they are path facts here, not obligations
        I.assume_requires += 1
        try:
            return I.call_function(wrapped, clones, kclones)
        except Raised:
            raise Infeasible()
        finally:
            I.assume_requires -= 1
    return I.call_function(wrapped, args, kwargs)


def _havoc_clone(I, a):
    if not isinstance(a, SObj) or a.payload is None:
        return a
    c = SObj(a.cls, a.payload)
    I.keep.append(c)
    touched = False
    for (oid, name), val in list(I.heap.items()):
        if oid != id(a):
            continue
        v = payload(val) if not isinstance(val, SObj) else val
        if isinstance(v, (str, SStr)):
            n = len(v)
            cs = [I.fresh(f"earlier_{name}") for _ in range(n)]
            for x in cs:
                # fields of earlier objects hold cleaned text too (every constructor funnels through Base.__new__,
                # and the classes' own code copies fields from payload slices): printable ASCII suffices to
                # exhibit a dependence and keeps the search small; this only narrows the histories considered
                I.assumptions.append(z3.And(x >= 33, x <= 96))
            I.heap[(id(c), name)] = SStr(cs) if n else ""
            touched = True
        elif isinstance(v, (int, SInt)) and not isinstance(v, bool):
            I.heap[(id(c), name)] = SInt(I.fresh(f"earlier_{name}"))
            touched = True
        else:
            I.heap[(id(c), name)] = val
    return c if touched else a


def container_method(I, fn, args, kwargs):
    obj = fn.__self__
    name = fn.__name__
    if name in ("get", "pop", "setdefault", "__getitem__", "__contains__") and args and is_sym(payload(args[0])):
        key = concretize(payload(args[0]))
        if isinstance(key, SStr) and isinstance(obj, dict) and name == "get":
            return I.dict_lookup(obj, key, default=args[1] if len(args) > 1 else None)
        if isinstance(key, SInt) and isinstance(obj, dict) and name in ("get", "__getitem__") and obj and \
                all(isinstance(k, int) and not isinstance(k, bool) for k in obj) and \
                all(isinstance(v, (int, SInt)) and not isinstance(v, bool) for v in obj.values()):
            # small integer table: an ite chain (no fork)
            default = args[1] if len(args) > 1 else None
            member = z3.Or(*[key.t == k for k in obj])
            if name == "__getitem__" or not isinstance(default, (int, SInt)) or isinstance(default, bool):
                if not I.branch(SBool(member)):
                    if name == "__getitem__":
                        raise Raised(KeyError("<sym>"))
                    return default
                t = None
            else:
                t = lift_int(default)
            for k, v in reversed(list(obj.items())):
                t = lift_int(v) if t is None else z3.If(key.t == k, lift_int(v), t)
            return SInt(t)
        if is_sym(key):
            raise Unsupported(f"{type(obj).__name__}.{name} with symbolic key")
        args = [key] + list(args[1:])
    if name in ("index", "count") and any(is_sym(payload(a)) for a in args):
        raise Unsupported(f"list.{name} with symbolic argument")
    if name == "sort" and isinstance(obj, list) and id(obj) in I.local_ids and (
            any(deep_sym(x) or isinstance(x, SObj) for x in obj) or kwargs.get("key") is not None):
        # list.sort on a list allocated in this call: the model of sorted(), written back in place
        res = call(I, sorted, [obj], kwargs)
        obj[:] = res
        return None
    if name in I_MUTATORS and id(obj) not in I.local_ids:
        I.writes.append(dict(kind="container", target=type(obj).__name__, attr=name, shared=True,
                             where="<call>", line=0))
        from .values import FrameViolation
        raise FrameViolation(f"mutation ({name}) of a shared {type(obj).__name__} that outlives the call")
    try:
        r = fn(*args, **kwargs)
    except Exception as ex:  # noqa: BLE001
        raise Raised(ex)
    if isinstance(r, (list, dict, set)) and name in FRESH_RESULT:
        I.alloc(r)
    return r


FRESH_RESULT = {"copy", "__add__", "__mul__", "__or__", "__and__", "__sub__", "union", "intersection", "difference",
                "fromkeys", "__rmul__", "symmetric_difference"}
I_MUTATORS = {"append", "extend", "pop", "setdefault", "update", "clear", "remove", "insert", "sort", "reverse",
              "popitem", "__setitem__", "__delitem__", "add", "discard"}


def construct(I, cls, args, kwargs):
    """model of type.__call__ for repo classes: __new__ chain, then __init__"""
    symbolic = any(deep_sym(a) for a in args) or any(deep_sym(a) for a in kwargs.values())
    k_new, v_new = I.lookup_cls(cls, "__new__")
    k_init, v_init = I.lookup_cls(cls, "__init__")
    new_in_repo = k_new is not None and I.is_repo_cls(k_new)
    init_in_repo = k_init is not None and I.is_repo_cls(k_init) and isinstance(v_init, types.FunctionType) \
        and I.is_repo_fn(v_init)
    if not new_in_repo and not init_in_repo:
        # dataclasses, enums, exceptions ...: generated code outside the repo files
        if symbolic:
            raise Unsupported(f"constructing {cls.__name__} with symbolic arguments")
        try:
            r = cls(*args, **kwargs)
        except Exception as ex:  # noqa: BLE001
            raise Raised(ex)
        I.alloc(r)
        return r
    if new_in_repo:
        newfn = v_new.__func__ if isinstance(v_new, staticmethod) else v_new
        obj = I.call_function(newfn, [cls] + list(args), kwargs, defcls=k_new)
    else:
        obj = SObj(cls, None)
        I.keep.append(obj)
    if isinstance(obj, SObj) and issubclass(obj.cls, cls) and k_init is not None and k_init not in (str, object):
        if init_in_repo:
            I.call_function(v_init, [obj] + list(args), kwargs, defcls=k_init)
    return obj


def call_special(I, fn, args, kwargs):
    if fn.kind == "lrumethod":
        wrapper, obj = fn.data
        return lru_call(I, wrapper, [obj] + list(args), kwargs)
    kind = fn.kind
    if kind == "noop":
        return None
    if kind == "base_new":
        cls = args[0]
        if fn.data[0] is object or len(args) < 2:
            obj = SObj(cls, None)
        else:
            value = payload(args[1])
            if not is_strlike(value):
                raise Unsupported("str.__new__ with non-string value")
            obj = SObj(cls, value)
        I.keep.append(obj)
        return obj
    if kind == "static_new":
        return I.call_function(fn.data[0], list(args), kwargs, defcls=fn.data[1])
    if kind == "strmethod":
        return strmethod(I, fn.data[0], fn.data[1], list(args), kwargs)
    if kind == "rxmethod":
        return rxmethod(I, fn.data[0], fn.data[1], list(args), kwargs)
    raise Unsupported(f"special {kind}")


# ---------------------------------------------------------------------------------------------- regex
class MatchTruth:
    """stands for a re.Match object of which only truthiness is used"""
    def __bool__(self):
        return True


def rxmethod(I, pat, name, args, kwargs):
    if name == "sub":
        from .values import SOpaqueStr
        if len(args) == 2 and isinstance(args[0], str) and isinstance(payload(args[1]), SOpaqueStr):
            return SOpaqueStr(f"re.sub(pattern={pat.pattern!r}, flags={pat.flags}, repl={args[0]!r}, "
                              f"string={payload(args[1]).term})")
        raise Unsupported("Pattern.sub outside the contract of common.clean")
    if name == "search":
        raise Unsupported("Pattern.search")
    s = payload(args[0])
    if isinstance(s, str):
        r = getattr(pat, name)(s)
        return r
    if isinstance(s, SDecStr):
        s = I.materialize(s)
    if isinstance(s, SFn):
        n = I.pin_length(s)
        if n is not None:
            s = I.vector_of(s, n)
        elif name == "match":
            head = rx.prefix_head(pat)
            if head is None:
                raise Unsupported("prefix match of an unbounded pattern on a string of unknown length")
            nodes, w = head
            if I.branch(SBool(s.len >= w)):
                f = rx.head_match_formula(pat, nodes, [s.at(z3.IntVal(i)) for i in range(w)])
            else:
                for n in range(w):
                    if I.branch(SBool(s.len == n)):
                        f = rx.match_formula(pat, I.vector_of(s, n).chars, "match")
                        break
                else:
                    raise Infeasible()
            r = concretize(SBool(f))
            return (MatchTruth() if r else None) if isinstance(r, bool) else SBoolMatch(r.t)
        else:
            nodes = rx.parse(pat)
            w = rx._max_width([x for x in nodes if x[0] is not rx.C.AT])
            if w is None:
                raise Unsupported("fullmatch of an unbounded pattern on a string of unknown length")
            # a full match needs len <= w (+1 for a trailing newline under $): enumerate those lengths
            for n in range(w + 2):
                if I.branch(SBool(s.len == n)):
                    f = rx.match_formula(pat, I.vector_of(s, n).chars, "fullmatch")
                    r = concretize(SBool(f))
                    return (MatchTruth() if r else None) if isinstance(r, bool) else SBoolMatch(r.t)
            return None
    s = lift_str(s)
    f = rx.match_formula(pat, s.chars, name)
    r = concretize(SBool(f))
    if isinstance(r, bool):
        return MatchTruth() if r else None
    return SBoolMatch(r.t)


class SBoolMatch(SBool):
    """symbolic 'some object or None': only truthiness / `is None` are meaningful"""


_ISO = []


def iso_codes():
    """assumed contract of pycountry: countries.get(alpha_2=x) is non-None exactly for the alpha-2 codes the
    database lists (probed on all 676 two-letter codes by the C04 check)"""
    if not _ISO:
        import pycountry
        _ISO.extend(sorted(c.alpha_2 for c in pycountry.countries))
    return _ISO


def m_countries_get(I, *args, **kwargs):
    import pycountry
    if args or set(kwargs) != {"alpha_2"}:
        raise Unsupported("pycountry.countries.get with other than alpha_2=")
    v = payload(kwargs["alpha_2"])
    if isinstance(v, str):
        return pycountry.countries.get(alpha_2=v)
    if isinstance(v, SFn):
        n = I.pin_length(v)
        if n is None:
            raise Unsupported("countries.get on a string of unpinned length")
        v = I.vector_of(v, n)
    s = lift_str(v)
    if len(s) != 2:
        return None
    c0, c1 = s.chars
    # the assumed contract is stated (and probed) for two ASCII upper-case letters only: pycountry folds case, so
    # e.g. KELVIN SIGN + 'R' would be found as "kr"; the caller has to prove it never asks outside [A-Z]{2}
    I.oblige("pycountry.countries.get.requires(alpha_2 in [A-Z]{2})",
             z3.And(c0 >= 65, c0 <= 90, c1 >= 65, c1 <= 90))
    return SBoolMatch(z3.Or(*[z3.And(c0 == ord(k[0]), c1 == ord(k[1])) for k in iso_codes()]))


def m_re_match(I, pattern, string, flags=0):
    return rxmethod(I, re.compile(pattern, flags), "match", [string], {})


def m_re_fullmatch(I, pattern, string, flags=0):
    return rxmethod(I, re.compile(pattern, flags), "fullmatch", [string], {})


# ---------------------------------------------------------------------------------------------- str methods
def strmethod(I, s, name, args, kwargs):
    s = payload(s)
    args = [payload(a) for a in args]
    from .values import SOpaqueStr
    if isinstance(s, SOpaqueStr):
        if any(deep_sym(a) for a in args) or kwargs:
            raise Unsupported(f"str.{name} on an opaque string with symbolic arguments")
        return SOpaqueStr(f"{s.term}.{name}({', '.join(repr(a) for a in args)})")
    if isinstance(s, str) and not any(deep_sym(a) for a in args):
        try:
            r = getattr(s, name)(*args, **kwargs)
        except Exception as ex:  # noqa: BLE001
            raise Raised(ex)
        if isinstance(r, list):
            I.alloc(r)
        return r
    if name == "join":
        parts = [payload(p) for p in I.iterate(args[0])]
        if any(isinstance(p, SFn) for p in parts):
            if lift_str(s).chars:
                raise Unsupported("join of symbolic-length strings with a separator")
            acc = ""
            for p in parts:
                acc = I.binop(ast.Add(), acc, p) if not (isinstance(acc, str) and acc == "") else p
            return acc
        out = []
        for i, p in enumerate(parts):
            if not is_strlike(p):
                raise Raised(TypeError("sequence item: expected str instance"))
            if i and s:
                out.append(s)
            out.append(p)
        return I.concat(out) if out else ""
    if name == "zfill":
        n = concretize(args[0]) if is_sym(args[0]) else args[0]
        if is_sym(n):
            raise Unsupported("zfill with symbolic width")
        return zfill(I, s, n)
    if isinstance(s, str) and name == "index" and len(args) == 1:
        return table_index(I, s, args[0])
    if isinstance(s, SDecStr):
        s = I.materialize(s)
    if isinstance(s, SFn):
        n = I.pin_length(s)
        if n is None:
            if name == "upper" and getattr(s, "upper_closed", False):
                return s
            if name == "startswith" and isinstance(args[0], str):
                p = args[0]
                if I.branch(SBool(s.len >= len(p))):
                    return I.str_eq(SStr([s.at(z3.IntVal(i)) for i in range(len(p))]), p)
                return False
            raise Unsupported(f"str.{name} on a string of unpinned symbolic length")
        s = I.vector_of(s, n)
    s = lift_str(s)
    if name == "startswith":
        p = lift_str(args[0])
        if len(p) > len(s):
            return False
        return I.str_eq(SStr(s.chars[:len(p)]), p)
    if name == "endswith":
        p = lift_str(args[0])
        if len(p) > len(s):
            return False
        return I.str_eq(SStr(s.chars[len(s) - len(p):]), p)
    if name in ("lstrip", "rstrip", "strip"):
        if len(args) > 1 or (args and not isinstance(args[0], str) and args[0] is not None):
            raise Unsupported(f"str.{name} without a constant character set")
        chars = list(s.chars)
        def member(c):
            if not args or args[0] is None:
                # assumed: str.strip() strips str.isspace() characters = the \\s set of str patterns (enumerated)
                return rx.in_ranges(c, rx.uni_space())
            return z3.Or(*[c == ord(x) for x in args[0]])
        if name in ("lstrip", "strip"):
            while chars and I.branch(SBool(member(chars[0]))):
                chars = chars[1:]
        if name in ("rstrip", "strip"):
            while chars and I.branch(SBool(member(chars[-1]))):
                chars = chars[:-1]
        return concretize(SStr(chars))
    if name == "index":
        # table.index(c) is handled on the table side; here: symbolic_string.index(...)
        raise Unsupported("index on a symbolic string")
    if name == "upper":
        out = []
        for c in s.chars:
            if not I.entails(z3.And(c >= 0, c < 128)):
                raise Unsupported("upper() of a possibly non-ASCII symbolic character")
            out.append(z3.If(z3.And(c >= 97, c <= 122), c - 32, c))
        return concretize(SStr(out))
    if name == "lower":
        out = []
        for c in s.chars:
            if not I.entails(z3.And(c >= 0, c < 128)):
                raise Unsupported("lower() of a possibly non-ASCII symbolic character")
            out.append(z3.If(z3.And(c >= 65, c <= 90), c + 32, c))
        return concretize(SStr(out))
    if name in ("isdigit", "isdecimal", "isnumeric"):
        if not s.chars:
            return False
        for c in s.chars:
            if not I.entails(z3.And(c >= 0, c < 128)):
                raise Unsupported(f"{name}() of a possibly non-ASCII symbolic character")
        return concretize(SBool(z3.And(*[z3.And(c >= 48, c <= 57) for c in s.chars])))
    if name == "isalpha":
        if not s.chars:
            return False
        for c in s.chars:
            if not I.entails(z3.And(c >= 0, c < 128)):
                raise Unsupported("isalpha() of a possibly non-ASCII symbolic character")
        return concretize(SBool(z3.And(*[z3.Or(z3.And(c >= 65, c <= 90), z3.And(c >= 97, c <= 122))
                                         for c in s.chars])))
    if name == "__len__":
        return len(s)
    raise Unsupported(f"str.{name} on a symbolic string")


def zfill(I, s, n):
    """model of str.zfill(n): left-pad with '0' to width n; a leading '+' or '-' stays in front of the padding"""
    if isinstance(s, SDecStr):
        s = I.materialize(s)
    if isinstance(s, SFn):
        k = I.pin_length(s)
        if k is not None:
            s = I.vector_of(s, k)
        else:
            if not I.branch(SBool(s.len <= n)):
                return s
            if n == 0:
                return ""
            pad = n - s.len
            s0 = s.at(z3.IntVal(0))
            sign = z3.And(s.len >= 1, z3.Or(s0 == 43, s0 == 45))
            out = []
            for i in range(n):
                plain = z3.If(i < pad, 48, s.at(i - pad))
                signed = s0 if i == 0 else z3.If(i <= pad, 48, s.at(i - pad))
                out.append(I.name_term(z3.If(sign, signed, plain), "zf"))
            return SStr(out)
    s = lift_str(s)
    k = len(s)
    if k >= n:
        return concretize(s)
    if k == 0:
        return "0" * n
    pad = n - k
    s0 = s.chars[0]
    sign = z3.Or(s0 == 43, s0 == 45)
    plain = [z3.IntVal(48)] * pad + s.chars
    signed = [s0] + [z3.IntVal(48)] * pad + s.chars[1:]
    if z3.is_int_value(s0):
        return concretize(SStr(signed if s0.as_long() in (43, 45) else plain))
    return concretize(SStr([z3.If(sign, a, b) for a, b in zip(signed, plain)]))


def table_index(I, table: str, c):
    """table.index(c) for a constant table and a symbolic single character"""
    c = lift_str(c)
    if len(c) != 1:
        raise Unsupported("index of multi-char symbolic string in table")
    ch = c.chars[0]
    if not I.branch(SBool(z3.Or(*[ch == ord(x) for x in table]))):
        raise Raised(ValueError("substring not found"))
    # runs of consecutive code points map by a constant offset: one ite per run (first occurrence wins)
    runs = []
    seen = set()
    for k, x in enumerate(table):
        if x in seen:
            continue
        seen.add(x)
        o = ord(x)
        if runs and runs[-1][1] == o - 1 and runs[-1][2] == o - k:
            runs[-1][1] = o
        else:
            runs.append([o, o, o - k])
    lo, hi, off = runs[-1]
    t = ch - off
    for lo, hi, off in runs[-2::-1]:
        t = z3.If(z3.And(ch >= lo, ch <= hi), ch - off, t)
    return concretize(SInt(t))


# ---------------------------------------------------------------------------------------------- builtins
def m_int(I, v=0, base=10):
    v = payload(v)
    if isinstance(v, SDecStr):
        acc = z3.IntVal(0)
        for p in v.pieces:
            if isinstance(p, Dec):
                if p.bound is None or p.bound > 100:
                    return m_int(I, I.materialize(v))
                acc = (z3.If(p.v < 10, acc * 10, acc * 100) if p.bound > 10 else acc * 10) + p.v
            else:
                if not I.branch(SBool(z3.And(p >= 48, p <= 57))):
                    raise Raised(ValueError("int(): invalid literal"))
                acc = acc * 10 + (p - 48)
        return concretize(SInt(acc))
    if isinstance(v, SFn):
        n = I.pin_length(v)
        if n is None:
            raise Unsupported("int() of a string of unpinned symbolic length")
        v = I.vector_of(v, n)
    if isinstance(v, SStr):
        if len(v) == 0:
            raise Raised(ValueError("int(): empty string"))
        t = z3.IntVal(0)
        for c in v.chars:
            # assumed contract of int(str): ASCII digits only are modelled as success; a character outside
            # [0-9] takes the ValueError path (CPython also accepts other Unicode digits, signs, blanks and
            # underscores - inputs on which the model raises while CPython may not; callers prove the path dead)
            if not I.branch(SBool(z3.And(c >= 48, c <= 57))):
                raise Raised(ValueError("int(): invalid literal"))
            t = t * 10 + (c - 48)
        return concretize(SInt(t))
    if isinstance(v, (SInt, SBool)):
        return SInt(lift_int(v))
    try:
        return int(v, base) if isinstance(v, str) else int(v)
    except (ValueError, TypeError) as ex:
        raise Raised(ex)


def m_str(I, v=""):
    v = payload(v)
    if isinstance(v, (SStr, SDecStr, SFn, str)):
        return v
    if isinstance(v, SInt):
        return I.str_of_int(v)
    if isinstance(v, SBool):
        raise Unsupported("str(symbolic bool)")
    return str(v)


def m_len(I, v):
    v = payload(v)
    if isinstance(v, SDecStr):
        v = I.materialize(v)
    if isinstance(v, SFn):
        return concretize(SInt(v.len))
    if isinstance(v, SObj):
        raise Raised(TypeError("object has no len()"))
    try:
        return len(v)
    except TypeError as ex:
        raise Raised(ex)


def m_sum(I, it, start=0):
    acc = start
    for x in I.iterate(it):
        acc = I.binop(ast.Add(), acc, x)
    return acc


def m_zip(I, *its, strict=False):
    lists = []
    n = None
    for it in its:
        if isinstance(it, SCycle):
            lists.append(it)
        elif isinstance(it, (itertools.cycle, itertools.count, itertools.repeat)):
            I.iterate(it)       # raises: a shared live iterator
        else:
            lst = I.iterate(it)
            lists.append(lst)
            n = len(lst) if n is None else min(n, len(lst))
    if n is None:
        raise Unsupported("zip of cycles only")
    cols = [[l.items[i % len(l.items)] for i in range(n)] if isinstance(l, SCycle) else l[:n] for l in lists]
    return I.alloc(list(zip(*cols)))


def m_cycle(I, it):
    return SCycle(I.iterate(it))


def m_reversed(I, it):
    return I.alloc(list(reversed(I.iterate(it))))


def m_enumerate(I, it, start=0):
    return I.alloc(list(enumerate(I.iterate(it), start)))


def m_isinstance(I, v, t):
    ts = t if isinstance(t, tuple) else (t,)
    if isinstance(v, SObj):
        return any(issubclass(v.cls, x) for x in ts)
    if isinstance(v, (SStr, SDecStr, SFn)):
        return any(issubclass(str, x) for x in ts)
    if isinstance(v, SInt):
        return any(issubclass(int, x) for x in ts)
    if isinstance(v, SBool):
        return any(issubclass(bool, x) for x in ts)
    return isinstance(v, t)


def m_range(I, *a):
    a = [concretize(x) if is_sym(x) else x for x in a]
    if any(is_sym(x) for x in a):
        raise Unsupported("range with symbolic bound")
    return range(*a)


def m_map(I, fn, *its):
    return I.alloc([I.call(fn, list(xs), {}) for xs in zip(*[I.iterate(it) for it in its])])


def m_filter(I, fn, it):
    return I.alloc([x for x in I.iterate(it) if I.truthy(I.call(fn, [x], {}) if fn is not None else x)])


def m_bool(I, v=False):
    v = concretize(v) if is_sym(v) else v
    if isinstance(v, SBool):
        return v
    if isinstance(v, SInt):
        return SBool(v.t != 0)
    return I.truthy(v)


def m_all(I, it):
    if isinstance(payload(it), (str, SStr, SDecStr, SFn)):
        return True         # the items of a string are its one-character substrings: all truthy (also for "")
    terms = []
    for x in I.iterate(it):
        x = concretize(x) if is_sym(x) else x
        if isinstance(x, SBool):
            terms.append(x.t)
        elif not I.truthy(x):
            return False
    return concretize(SBool(z3.And(*terms))) if terms else True


def m_any(I, it):
    terms = []
    for x in I.iterate(it):
        x = concretize(x) if is_sym(x) else x
        if isinstance(x, SBool):
            terms.append(x.t)
        elif I.truthy(x):
            return True
    return concretize(SBool(z3.Or(*terms))) if terms else False


def m_ord(I, c):
    c = payload(c)
    if isinstance(c, str):
        return ord(c)
    c = lift_str(c)
    if len(c) != 1:
        raise Raised(TypeError("ord() expected a character"))
    return concretize(SInt(c.chars[0]))


def m_chr(I, n):
    n = concretize(n) if is_sym(n) else n
    if isinstance(n, int):
        return chr(n)
    return SStr([n.t])


def m_minmax(which):
    def m(I, *args, **kw):
        if kw:
            raise Unsupported("min/max with key")
        items = I.iterate(args[0]) if len(args) == 1 else list(args)
        if not any(is_sym(x) for x in items):
            return (min if which == "min" else max)(items)
        acc = lift_int(items[0])
        for x in items[1:]:
            x = lift_int(x)
            acc = z3.If(x < acc, x, acc) if which == "min" else z3.If(x > acc, x, acc)
        return SInt(acc)
    return m


def m_abs(I, v):
    if is_sym(v):
        t = lift_int(v)
        return SInt(z3.If(t < 0, -t, t))
    return abs(v)


def m_sorted(I, it, key=None, reverse=False):
    items = I.iterate(it)
    if key is None and items and all(isinstance(x, SObj) and isinstance(payload(x), str) for x in items):
        # instances of the repo's str subclasses with concrete text: ordered as their text (Base.__lt__, C16)
        return I.alloc(sorted(items, key=lambda x: payload(x), reverse=reverse))
    if any(deep_sym(x) for x in items):
        raise Unsupported("sorted() over symbolic items")
    if key is not None and not callable(key):
        raise Unsupported("sorted key")
    if isinstance(key, (Closure, BoundFn)):
        keyed = [(I.call(key, [x], {}), i, x) for i, x in enumerate(items)]
        if any(deep_sym(k) for k, _, _ in keyed):
            raise Unsupported("sorted() with symbolic keys")
        keyed.sort(key=lambda t: t[0], reverse=reverse)
        return I.alloc([x for _, _, x in keyed])
    try:
        return I.alloc(sorted(items, key=key, reverse=reverse))
    except TypeError as ex:
        raise Raised(ex)


def m_list(I, it=()):
    return I.alloc(list(I.iterate(it)))


def m_tuple(I, it=()):
    return tuple(I.iterate(it))


def m_dict(I, *a, **kw):
    d = {}
    if a:
        src = a[0]
        if isinstance(src, dict):
            d.update(src)
        else:
            for k, v in I.iterate(src):
                d[I.hashable(k)] = v
    d.update(kw)
    return I.alloc(d)


def m_set(I, it=()):
    items = I.iterate(it)
    if any(deep_sym(x) for x in items):
        return I.alloc(list(items))
    return I.alloc(set(items))


def m_frozenset(I, it=()):
    items = I.iterate(it)
    if any(deep_sym(x) for x in items):
        raise Unsupported("frozenset of symbolic items")
    return frozenset(items)


def m_chain(I, *its):
    out = []
    for it in its:
        out.extend(I.iterate(it))
    return I.alloc(out)


def m_chain_from_iterable(I, it):
    out = []
    for sub in I.iterate(it):
        out.extend(I.iterate(sub))
    return I.alloc(out)


def m_getattr(I, obj, name, *default):
    try:
        return I.getattr(obj, name)
    except Raised as r:
        if default and isinstance(r.exc, AttributeError):
            return default[0]
        raise


def m_hasattr(I, obj, name):
    try:
        I.getattr(obj, name)
        return True
    except Raised:
        return False


def m_cast(I, t, v):
    return v


def m_type(I, v):
    if isinstance(v, SObj):
        return v.cls
    if isinstance(v, (SStr, SDecStr, SFn)):
        return str
    if isinstance(v, SInt):
        return int
    if isinstance(v, SBool):
        return bool
    return type(v)


def m_hash(I, v):
    raise Unsupported("hash()")


def m_repr(I, v):
    if is_sym(v) or isinstance(v, SObj):
        return "<sym>"
    return repr(v)


def m_divmod(I, a, b):
    return (I.binop(ast.FloorDiv(), a, b), I.binop(ast.Mod(), a, b))


def m_itemgetter(I, *keys):
    import operator
    return operator.itemgetter(*keys)


def reconstruct(I, x, deep=False):
    """assumed contract of copy.copy / copy.deepcopy / pickle for instances of the repo's str subclasses
    (object.__reduce_ex__(2)): cls.__new__(cls, *newargs) with newargs = x.__getnewargs__() if the class defines it
    else (str(x),); then the instance __dict__ is copied onto the new object (deep: values deep-copied)"""
    cls = x.cls
    k, g = I.lookup_cls(cls, "__getnewargs__")
    if g is not None and I.is_repo_cls(k):
        newargs = I.call(I.getattr(x, "__getnewargs__"), [], {})
    else:
        newargs = (payload(x),) if x.payload is not None else ()
    k_new, v_new = I.lookup_cls(cls, "__new__")
    if k_new is not None and I.is_repo_cls(k_new):
        newfn = v_new.__func__ if isinstance(v_new, staticmethod) else v_new
        r = I.call_function(newfn, [cls] + list(newargs), {}, defcls=k_new)
    else:
        r = SObj(cls, payload(x) if x.payload is not None else None)
        I.keep.append(r)
    for (oid, name), val in list(I.heap.items()):
        if oid == id(x):
            I.heap[(id(r), name)] = m_deepcopy(I, val) if deep else val
    return r


def m_copy(I, x):
    import copy as _copy
    if isinstance(x, SObj):
        k, f = I.lookup_cls(x.cls, "__copy__")
        if f is not None and I.is_repo_cls(k):
            return I.call(I.getattr(x, "__copy__"), [], {})
        return reconstruct(I, x)
    if is_sym(x):
        return x
    r = _copy.copy(x)
    if isinstance(r, (list, dict, set)):
        I.alloc(r)
    return r


def m_deepcopy(I, x, memo=None):
    import copy as _copy
    if isinstance(x, SObj):
        k, f = I.lookup_cls(x.cls, "__deepcopy__")
        if f is not None and I.is_repo_cls(k):
            return I.call(I.getattr(x, "__deepcopy__"), [memo if memo is not None else {}], {})
        return reconstruct(I, x, deep=True)
    if is_sym(x):
        return x
    if deep_sym(x):
        if isinstance(x, dict):
            return I.alloc({k: m_deepcopy(I, v) for k, v in x.items()})
        if isinstance(x, (list, tuple)):
            r = type(x)(m_deepcopy(I, v) for v in x)
            return I.alloc(r) if isinstance(r, list) else r
    r = _copy.deepcopy(x)
    if isinstance(r, (list, dict, set)):
        I.alloc(r)
    return r


import copy as _copy_mod  # noqa: E402
import typing  # noqa: E402

BUILTIN_MODELS = {
    int: m_int, str: m_str, len: m_len, sum: m_sum, zip: m_zip, itertools.cycle: m_cycle, reversed: m_reversed,
    enumerate: m_enumerate, isinstance: m_isinstance, range: m_range, map: m_map, filter: m_filter, bool: m_bool,
    all: m_all, any: m_any, ord: m_ord, chr: m_chr, min: m_minmax("min"), max: m_minmax("max"), abs: m_abs,
    sorted: m_sorted, list: m_list, tuple: m_tuple, dict: m_dict, set: m_set, frozenset: m_frozenset,
    itertools.chain: m_chain, itertools.chain.from_iterable: m_chain_from_iterable, getattr: m_getattr,
    hasattr: m_hasattr, typing.cast: m_cast, type: m_type, hash: m_hash, repr: m_repr, divmod: m_divmod,
    re.match: m_re_match, re.fullmatch: m_re_fullmatch, _copy_mod.copy: m_copy, _copy_mod.deepcopy: m_deepcopy,
}
