"""Canonicalisation of unary table terms.

An Int-sorted subterm that contains an `ite` and whose only free variable is one character variable with a
known small finite domain is a *table*: it is replaced by a content-addressed variable `tab!<hash>!<var>` whose
name depends only on the table's values, so two differently phrased but equal tables (the code's lookup chain,
the spec's arithmetic) become the same term.  The definition of the new variable (its value for every domain
element) is added as a hypothesis - a conservative extension, so validity is unchanged."""
from __future__ import annotations

import hashlib
import math

import z3


def _summands(t):
    if z3.is_add(t):
        out = []
        for c in t.children():
            out += _summands(c)
        return out
    return [t]


def factor_ite(t, memo, alive):
    """If(c, a + t, b + t)  ->  If(c, a, b) + t   (common summands of the two branches are pulled out, bottom-up):
    brings `n*10 + i if i < 10 else n*100 + i` and `(n*10 if i < 10 else n*100) + i` to the same shape"""
    k = t.get_id()
    if k in memo:
        return memo[k]
    alive.append(t)
    r = t
    if z3.is_app(t) and t.num_args() > 0 and not z3.is_quantifier(t):
        ch = [factor_ite(c, memo, alive) for c in t.children()]
        if any(a.get_id() != b.get_id() for a, b in zip(ch, t.children())):
            r = t.decl()(*ch)
        if z3.is_app(r) and r.decl().kind() == z3.Z3_OP_ITE and z3.is_int(r):
            c, x, y = r.children()
            xs, ys = _summands(x), _summands(y)
            yid = {}
            for s in ys:
                yid.setdefault(s.get_id(), []).append(s)
            common, restx = [], []
            for s in xs:
                if yid.get(s.get_id()):
                    yid[s.get_id()].pop()
                    common.append(s)
                else:
                    restx.append(s)
            if common and (restx or len(common) < len(ys)):
                resty = [s for lst in yid.values() for s in lst]
                xa = z3.Sum(restx) if len(restx) > 1 else (restx[0] if restx else z3.IntVal(0))
                ya = z3.Sum(resty) if len(resty) > 1 else (resty[0] if resty else z3.IntVal(0))
                r = z3.Sum([z3.If(c, xa, ya)] + common)
    memo[k] = r
    alive.append(r)
    return r


def canonicalise(formulas, domains, term_domains=()):
    """formulas: list of z3 Bool terms; domains: {var name: sorted list of ints}; term_domains: [(term, domain)]
    character-valued compound terms that are to be treated like variables.  returns new formula list"""
    if term_domains:
        domains = dict(domains)
        subs = []
        extra = []
        for t, dom in term_domains:
            if z3.is_const(t):
                if t.decl().kind() == z3.Z3_OP_UNINTERPRETED:
                    domains[t.decl().name()] = dom
                continue
            name = "chr!" + hashlib.sha1(t.sexpr().encode()).hexdigest()[:12]
            v = z3.Int(name)
            subs.append((t, v))
            extra.append(v == t)
            domains[name] = dom
        if subs:
            formulas = [z3.substitute(f, *subs) for f in formulas] + extra
    if not domains:
        return formulas
    fv_cache = {}
    has_ite = {}

    alive = []      # z3 reuses AST ids of collected terms: every term used as a cache key is kept alive

    def info(t):
        k = t.get_id()
        if k in fv_cache:
            return fv_cache[k], has_ite[k]
        alive.append(t)
        fv = set()
        ite = False
        if z3.is_const(t):
            if t.decl().kind() == z3.Z3_OP_UNINTERPRETED:
                fv.add(t.decl().name())
        elif z3.is_quantifier(t):
            fv.add("<quantifier>")
            fv.add("<blocked>")
        else:
            if z3.is_app(t) and t.decl().kind() == z3.Z3_OP_UNINTERPRETED:
                fv.add("<uf>")
                fv.add("<blocked>")
            if z3.is_app(t) and t.decl().kind() in (z3.Z3_OP_ITE, z3.Z3_OP_IDIV, z3.Z3_OP_MOD, z3.Z3_OP_DIV):
                ite = True
            for c in t.children():
                f2, i2 = info(c)
                fv |= f2
                ite = ite or i2
                if len(fv) > 2:
                    break
        fv_cache[k] = fv
        has_ite[k] = ite
        return fv, ite

    defs = {}
    memo = {}

    def is_table(t):
        if not z3.is_int(t) or z3.is_const(t):
            return None
        fv, ite = info(t)
        if not ite or len(fv) != 1:
            return None
        (v,) = fv
        return v if v in domains else None

    def rewrite(t):
        k = t.get_id()
        if k in memo:
            return memo[k]
        alive.append(t)
        v = is_table(t)
        if v is not None:
            var = z3.Int(v)
            vals = []
            ok = True
            for d in domains[v]:
                r = z3.simplify(z3.substitute(t, (var, z3.IntVal(d))))
                if not z3.is_int_value(r):
                    ok = False
                    break
                vals.append(r.as_long())
            if ok:
                dom = domains[v]
                # a table that is linear in the variable is not a table: a*var + b
                if len(dom) >= 2 and (vals[1] - vals[0]) % (dom[1] - dom[0]) == 0:
                    a = (vals[1] - vals[0]) // (dom[1] - dom[0])
                    b = vals[0] - a * dom[0]
                    if all(val == a * d + b for d, val in zip(dom, vals)):
                        r = (a * var if a != 1 else var) if a != 0 else z3.IntVal(0)
                        memo[k] = r + b if b else r
                        return memo[k]

                def norm(xs):
                    lo = min(xs)
                    xs = [x - lo for x in xs]
                    g = 0
                    for x in xs:
                        g = math.gcd(g, x)
                    g = g or 1
                    return [x // g for x in xs], lo, g
                # tables are normalised: minimum 0, gcd 1, and of a table and its negation the lexicographically
                # smaller one is kept; offset, scale and sign stay outside as linear arithmetic
                n1, lo1, g1 = norm(vals)
                n2, lo2, g2 = norm([-x for x in vals])
                if n2 < n1:
                    vals, lo, g = n2, -lo2, -g2
                else:
                    vals, lo, g = n1, lo1, g1
                h = hashlib.sha1(repr((domains[v], vals)).encode()).hexdigest()[:10]
                name = f"tab!{h}!{v}"
                nv = z3.Int(name)
                if name not in defs:
                    defs[name] = z3.Implies(
                        z3.Or(*[var == d for d in domains[v]]),
                        z3.And(nv >= min(vals), nv <= max(vals),
                               z3.Or(*[z3.And(var == d, nv == val) for d, val in zip(domains[v], vals)])))
                r = g * nv if g != 1 else nv
                memo[k] = r + lo if lo else r
                return memo[k]
        if z3.is_add(t):
            # flatten the sum and regroup its summands by their single free variable, so that e.g.
            # p/10 + p%10 (two summands over the same variable) form ONE table like If(p >= 10, p - 9, p)
            flat = []
            stack = list(t.children())[::-1]
            while stack:
                x = stack.pop()
                if z3.is_add(x):
                    stack.extend(list(x.children())[::-1])
                else:
                    flat.append(x)
            groups, rest = {}, []
            for x in flat:
                fv, _ = info(x)
                if len(fv) == 1 and next(iter(fv)) in domains and z3.is_int(x):
                    groups.setdefault(next(iter(fv)), []).append(x)
                else:
                    rest.append(x)
            parts = []
            for v, xs in groups.items():
                g = xs[0] if len(xs) == 1 else z3.Sum(xs)
                parts.append(rewrite(g) if (len(xs) == 1 or is_table(g) is not None) else g)
            parts += [rewrite(x) for x in rest]
            r = parts[0] if len(parts) == 1 else z3.Sum(parts)
            memo[k] = r
            return r
        if z3.is_app(t) and t.num_args() > 0 and not z3.is_quantifier(t):
            ch = [rewrite(c) for c in t.children()]
            if any(a.get_id() != b.get_id() for a, b in zip(ch, t.children())):
                r = t.decl()(*ch)
            else:
                r = t
        else:
            r = t
        memo[k] = r
        return r

    formulas = [factor_ite(f, {}, alive) for f in formulas]
    out = [rewrite(f) for f in formulas]
    # the definitions are implied by the domain constraint of the variable; they are hypotheses
    return out + list(defs.values())
