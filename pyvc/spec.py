"""Helpers for sidecar specifications.  Spec functions are ordinary Python in the interpreted subset: pyvc runs them
symbolically to build the clause, the replay harness runs the same text natively as the oracle."""
from __future__ import annotations

import z3

from . import models
from .values import MergeAbort, SBool, SInt, SStr, Unsupported, concretize, is_sym, lift_bool, lift_int, lift_str


def spec(fn):
    fn._pyvc_spec = True
    return fn


def ite(c, a, b):
    """fork-free conditional for spec functions"""
    return a if c else b


def _m_ite(I, c, a, b):
    c = concretize(c) if is_sym(c) else c
    if not isinstance(c, SBool):
        return a if I.truthy(c) else b
    a, b = (concretize(x) if is_sym(x) else x for x in (a, b))
    try:
        return I.ite(c.t, a, b)
    except MergeAbort:
        raise Unsupported("ite() on values that cannot be merged")


def implies(a, b):
    return (not a) or b


def _m_implies(I, a, b):
    a, b = (concretize(x) if is_sym(x) else x for x in (a, b))
    if isinstance(a, bool) and isinstance(b, bool):
        return (not a) or b
    return SBool(z3.Implies(lift_bool(a), lift_bool(b)))


def digit(ch):
    """value of an ASCII decimal digit character (spec side; no failure path)"""
    return ord(ch) - 48


def _m_digit(I, ch):
    c = lift_str(ch)
    if len(c) != 1:
        raise Unsupported("digit() of a multi-character string")
    return concretize(SInt(c.chars[0] - 48))


def is_digit(ch):
    return "0" <= ch <= "9"


def _m_is_digit(I, ch):
    c = lift_str(ch).chars[0]
    return concretize(SBool(z3.And(c >= 48, c <= 57)))


def is_upper(ch):
    return "A" <= ch <= "Z"


def _m_is_upper(I, ch):
    c = lift_str(ch).chars[0]
    return concretize(SBool(z3.And(c >= 65, c <= 90)))


def band(*xs):
    """fork-free `and` of bools"""
    return all(xs)


def _m_band(I, *xs):
    xs = [concretize(x) if is_sym(x) else x for x in xs]
    if any(x is False for x in xs):
        return False
    ts = [lift_bool(x) for x in xs if x is not True]
    return concretize(SBool(z3.And(*ts))) if ts else True


def bor(*xs):
    return any(xs)


def _m_bor(I, *xs):
    xs = [concretize(x) if is_sym(x) else x for x in xs]
    if any(x is True for x in xs):
        return True
    ts = [lift_bool(x) for x in xs if x is not False]
    return concretize(SBool(z3.Or(*ts))) if ts else False


def bnot(a):
    return not a


def _m_bnot(I, a):
    a = concretize(a) if is_sym(a) else a
    return (not a) if isinstance(a, bool) else SBool(z3.Not(lift_bool(a)))


models.BUILTIN_MODELS.update({ite: _m_ite, implies: _m_implies, digit: _m_digit, is_digit: _m_is_digit,
                              is_upper: _m_is_upper, band: _m_band, bor: _m_bor, bnot: _m_bnot})
