"""Grouping loops over abstract lists (registry.build_index):

    data = defaultdict(list)
    for entry in base:                 # base: abstract list (any length)
        ...                            # no effect other than at most ONE `data[k].append(entry)` per iteration
    ... dict(data)

The loop body is executed for ONE generic element on all its paths (nested exploration).  Every path must end with
no effect or with exactly one append of the loop element itself to one accumulator slot; any other write to an
object that exists outside the iteration is Unsupported.  The accumulator then carries, per loop, the list of cases
(path condition over the generic element, key value): `included(e)` and `key(e)` as formulas / values.

META-THEOREM (assumed, stated in the evidence): a loop over a list whose body does, for element e, exactly
`if phi(e): data[k(e)].append(e)` on an initially empty defaultdict(list) leaves
    data == { K : [e for e in base if phi(e) and k(e) == K]  for the keys K that occur },
i.e. the order-preserving grouping of the included elements (induction on the list)."""
from __future__ import annotations

import ast

import z3

from . import interp as _interp
from . import models as _models
from .alist import AList, Elem
from .values import BreakSignal, ContinueSignal, Special, Unsupported

_installed = False


class GroupAcc:
    """model of collections.defaultdict(list) used as a grouping accumulator"""

    def __init__(self):
        self.loops = []         # dict(g=generic Elem term, src=AList, cases=[(pc_rel, key, is_element)])
        self.frozen = False
        self.other_use = []


class GroupSlot:
    def __init__(self, acc, key):
        self.acc, self.key = acc, key


def install():
    global _installed
    if _installed:
        return
    _installed = True
    from . import alist_hooks
    alist_hooks.install()
    Interp = _interp.Interp
    import collections

    def m_defaultdict(I, factory=None, *a, **kw):
        if factory is not list or a or kw:
            raise Unsupported("defaultdict other than defaultdict(list)")
        acc = GroupAcc()
        I.keep.append(acc)
        return acc
    _models.BUILTIN_MODELS[collections.defaultdict] = m_defaultdict

    orig_dict = _models.BUILTIN_MODELS[dict]

    def m_dict(I, *a, **kw):
        if len(a) == 1 and isinstance(a[0], GroupAcc) and not kw:
            a[0].frozen = True
            return a[0]         # dict(defaultdict) keeps keys, order and the (shared) lists
        return orig_dict(I, *a, **kw)
    _models.BUILTIN_MODELS[dict] = m_dict

    orig_isinstance = _models.BUILTIN_MODELS[isinstance]

    def m_isinstance(I, v, t):
        if isinstance(v, AList):
            return isinstance([], t)
        if isinstance(v, GroupAcc):
            return isinstance(collections.defaultdict(list), t)
        return orig_isinstance(I, v, t)
    _models.BUILTIN_MODELS[isinstance] = m_isinstance

    orig_index = Interp.index

    def index(self, obj, idx):
        if isinstance(obj, GroupAcc):
            if getattr(self, "group_events", None) is None or obj.frozen:
                raise Unsupported("grouping accumulator read outside a generic loop body")
            return GroupSlot(obj, idx)
        return orig_index(self, obj, idx)
    Interp.index = index

    orig_getattr = Interp.getattr

    def getattr_(self, obj, name):
        if isinstance(obj, GroupSlot):
            if name != "append":
                raise Unsupported(f"list.{name} on a slot of the grouping accumulator")
            return Special("groupappend", obj)
        if isinstance(obj, GroupAcc):
            raise Unsupported(f"defaultdict.{name} on the grouping accumulator")
        return orig_getattr(self, obj, name)
    Interp.getattr = getattr_

    orig_special = _models.call_special

    def call_special(I, fn, args, kwargs):
        if fn.kind == "groupappend":
            slot = fn.data[0] if isinstance(fn.data, tuple) else fn.data
            if kwargs or len(args) != 1:
                raise Unsupported("append with unexpected arguments")
            I.group_events.append((slot.acc, slot.key, args[0]))
            return None
        return orig_special(I, fn, args, kwargs)
    _models.call_special = call_special

    orig_for = Interp.x_For

    def x_For(self, s, f):
        it = self.eval(s.iter, f)
        if not (isinstance(it, AList) and getattr(it, "make_element", None) is not None and it.base is None):
            s2 = ast.copy_location(ast.For(target=s.target, iter=ast.Constant(value=None), body=s.body, orelse=s.orelse), s)
            f.env["__iter_g__"] = it
            s2.iter = ast.copy_location(ast.Name(id="__iter_g__", ctx=ast.Load()), s)
            return orig_for(self, s2, f)
        if getattr(self, "group_events", None) is not None:
            raise Unsupported("nested loop over an abstract list")
        if not isinstance(s.target, ast.Name):
            raise Unsupported("loop over an abstract list with a non-name target")
        self.elem_n = getattr(self, "elem_n", 0) + 1
        g = z3.Const(f"loopelem!{self.elem_n}", Elem)
        ctx = list(self.pc)
        name = s.target.id
        fr = f
        assigned = {n.id for st in s.body for n in ast.walk(st) if isinstance(n, ast.Name) and isinstance(n.ctx, ast.Store)}
        before = {k: fr.env.get(k, _MISSING) for k in assigned | {name}}

        def body():
            el = it.make_element(self, g)
            fr.env[name] = el
            self.group_events = []
            try:
                try:
                    self.exec_block(s.body, fr)
                except ContinueSignal:
                    pass
                except BreakSignal:
                    raise Unsupported("break inside a loop over an abstract list") from None
                ev = list(self.group_events)
            finally:
                self.group_events = None
            if any(w.get("shared") for w in self.writes):
                raise Unsupported("loop body over an abstract list writes to an object that outlives the iteration")
            if len(ev) > 1:
                raise Unsupported("more than one append per iteration of a loop over an abstract list")
            return [(acc, key, _same_entry(val, el)) for acc, key, val in ev]
        paths = _nested_paths(self, body, ctx)
        per_acc = {}
        for pc_rel, ev in paths:
            for acc, key, is_el in ev:
                per_acc.setdefault(id(acc), (acc, []))[1].append((pc_rel, key, is_el))
        for acc, cases in per_acc.values():
            acc.loops.append(dict(g=g, src=it, cases=cases, n_paths=len(paths)))
        # locals assigned in the body hold the values of the LAST iteration, which the generic run does not know
        for k, v in before.items():
            fr.env[k] = Special("poison", k)
        if s.orelse:
            self.exec_block(s.orelse, f)
    Interp.x_For = x_For


_MISSING = object()


def _same_entry(val, el):
    """the appended value is the loop element or an equal copy of it (same keys, the very same field values)"""
    if val is el:
        return True
    return isinstance(val, dict) and isinstance(el, dict) and list(val) == list(el) and all(val[k] is el[k] for k in el)


def _nested_paths(I, thunk, ctx):
    """explore `thunk` under the path condition ctx; returns [(pc relative to ctx, value)]; raising paths are
    Unsupported; the interpreter's path state is saved and restored; safety obligations met inside are kept"""
    saved = (I.decisions, I.pos, I.pc, I.heap, I.writes, I.local_ids, I.path_obligations, I.keep, I.defs,
             getattr(I, "amaps", None), getattr(I, "generic", None), I.cur_model, I.cur_model_key)
    saved_base = list(getattr(I, "base_pc", ()))
    I.base_pc = list(ctx)
    out, obligations, keep = [], [], []
    try:
        for p in I.explore(thunk):
            if p["kind"] != "return":
                raise Unsupported(f"body of a loop over an abstract list raised {p['value']!r}")
            rel = p["pc"][len(ctx):]
            out.append((z3.And(*rel) if rel else z3.BoolVal(True), p["value"]))
            obligations += p["obligations"]
            keep += p["keep"]
    finally:
        I.base_pc = saved_base
        (I.decisions, I.pos, I.pc, I.heap, I.writes, I.local_ids, I.path_obligations, I.keep, I.defs,
         am, gen, I.cur_model, I.cur_model_key) = saved
        if am is not None:
            I.amaps = am
            I.generic = gen
    I.path_obligations.extend(obligations)
    I.keep.extend(keep)
    return out
