"""Abstract maps for pyvc: dictionaries of unknown size and content (C18).

Sorts: Key, Val, Map.  A dictionary value is a Val with is_map; as_map / of_map convert.  A map m is described by
m_has(m, k) and m_get(m, k).  Python-level handles:

  AMap(has, get)   closures  Key-term -> Bool-term / Val-term   (the current state of one dict object)
  SKey(t), SVal(t) symbolic key / value
  ASet(mem)        abstract set of keys;  AItems(amap)  abstract .items() view;  AChain([...]) itertools.chain of views

Loops over these collections are executed for ONE generic element (`pointwise` loops): the body may read and write
the abstract dicts only at the loop key, and its effect is then generalised to every key of the collection by
substitution.  Conditions checked while executing the body: every access to an abstract dict uses the loop key;
each key is visited once (sets and dict views); so the iteration order cannot matter.  `if` statements inside the
body are executed on both sides and merged (no path fork: different keys may take different sides)."""
from __future__ import annotations

import z3

Key = z3.DeclareSort("Key")
Val = z3.DeclareSort("Val")
Map = z3.DeclareSort("Map")
is_map = z3.Function("is_map", Val, z3.BoolSort())
as_map = z3.Function("as_map", Val, Map)
of_map = z3.Function("of_map", Map, Val)
m_has = z3.Function("m_has", Map, Key, z3.BoolSort())
m_get = z3.Function("m_get", Map, Key, Val)
MergeSpec = z3.Function("Merge", Map, Map, Map)
is_truthy = z3.Function("is_truthy", Val, z3.BoolSort())     # bool(v) of an abstract value
NONE = z3.Const("none_value", Val)                            # the value None (falsy)


class SKey:
    def __init__(self, t):
        self.t = t

    def __repr__(self):
        return f"SKey({self.t})"


class SVal:
    def __init__(self, t):
        self.t = t

    def __repr__(self):
        return f"SVal({self.t})"


class AMap:
    def __init__(self, has, get, name="map"):
        self.has, self.get, self.name = has, get, name

    @staticmethod
    def of_term(m, name="map"):
        return AMap(lambda k: m_has(m, k), lambda k: m_get(m, k), name)

    @staticmethod
    def empty():
        dummy = z3.Const("no_value", Val)
        return AMap(lambda k: z3.BoolVal(False), lambda k: dummy, "{}")


class ASet:
    def __init__(self, mem):
        self.mem = mem


class AItems:
    def __init__(self, amap):
        self.amap = amap


class AChain:
    def __init__(self, parts):
        self.parts = list(parts)


class Generic:
    """state of one generic iteration"""

    def __init__(self, kk):
        self.kk = kk
        self.writes = {}      # id(dict) -> (written condition, value term)

    def copy(self):
        g = Generic(self.kk)
        g.writes = dict(self.writes)
        return g
