"""Verification tasks: explore the real function and its sidecar spec symbolically, generate obligations,
discharge them, decode and natively replay counterexamples.  One Task = one function (or call tree) under one
contract for one finite case of the case-split scheme (a country, a method, a length)."""
from __future__ import annotations

import os
import random
import re
import time
import traceback

import z3

from . import canon, solve
from .interp import Interp
from .values import (FrameViolation, Raised, SBool, SDecStr, SFn, SInt, SObj, SStr, Unsupported, concretize, is_sym, lift_bool,
                     lift_int, lift_str, payload)


class ExcTag:
    """observation 'raised an exception of this class'"""

    def __init__(self, name):
        self.name = name

    def __eq__(self, other):
        return isinstance(other, ExcTag) and other.name == self.name

    def __hash__(self):
        return hash(self.name)

    def __repr__(self):
        return f"raises {self.name}"


class Escape:
    """observation: an exception outside the admitted family escaped"""

    def __init__(self, exc):
        self.exc = exc

    def __repr__(self):
        return f"ESCAPE {type(self.exc).__name__}: {self.exc}"


def obligation(name, status, backend="", secs=0.0, witness=None, detail="", kind="vc"):
    return dict(name=name, status=status, backend=backend, secs=round(secs, 3), witness=witness, detail=detail,
                kind=kind)


class Task:
    """subclass and fill in; see run()"""
    name = "task"
    prop_ids = ()
    contracts = {}
    max_paths = 20000
    crosscheck_samples = 200

    # --- symbolic side
    def setup(self, I):
        """create symbolic inputs; return dict name -> symbolic value; may extend I.assumptions"""
        raise NotImplementedError

    def code(self, I, inp):
        raise NotImplementedError

    def spec(self, I, inp):
        """exact spec; or None when lower/upper are given"""
        return None

    lower = None   # band: lower(I, inp) => code => upper(I, inp)   (bool observations only)
    upper = None

    def observe(self, I, path):
        """normalise a code path outcome to an observation"""
        return std_observe(path)

    def observe_spec(self, I, path):
        return std_observe(path)

    def extra_obligations(self, I, inp, code_paths):
        """additional clauses [(name, formula_that_must_be_unsat_list)]"""
        return []

    # --- native side (oracle + replay)
    def native_code(self, inp):
        raise NotImplementedError

    def native_spec(self, inp):
        return None

    def native_band(self, inp):
        return None   # (lower, upper)

    def sample(self, rnd):
        return None

    def native_agree(self, inp):
        """(agree?, code_obs, spec_obs) natively"""
        c = self.native_code(inp)
        band = self.native_band(inp)
        if band is not None:
            lo, up = band
            return ((not lo or c is True) and (c is not True or up)), c, f"band[{lo},{up}]"
        s = self.native_spec(inp)
        return (c == s and isinstance(c, bool) == isinstance(s, bool)), c, s


def std_observe(path):
    from schwifty.exceptions import SchwiftyException
    if path["kind"] == "return":
        v = path["value"]
        return concretize(v) if is_sym(v) else v
    exc = path["value"]
    if isinstance(exc, SchwiftyException):
        return ExcTag(type(exc).__name__)
    if isinstance(exc, SpecRaise):
        return ExcTag(exc.args[0])
    return Escape(exc)


class SpecRaise(Exception):
    """spec functions say `raise SpecRaise('InvalidLength')` to specify an exception outcome"""


def obs_eq(I, a, b):
    """z3 formula (or python bool) for equality of two observations"""
    a, b = payload(a), payload(b)
    if isinstance(a, Escape) or isinstance(b, Escape):
        return False
    if isinstance(a, ExcTag) or isinstance(b, ExcTag):
        return isinstance(a, ExcTag) and isinstance(b, ExcTag) and a.name == b.name
    if a is None or b is None:
        return a is None and b is None
    if isinstance(a, (bool, SBool)) or isinstance(b, (bool, SBool)):
        if not (isinstance(a, (bool, SBool)) and isinstance(b, (bool, SBool))):
            return False
        if isinstance(a, bool) and isinstance(b, bool):
            return a == b
        return lift_bool(a) == lift_bool(b)
    if isinstance(a, (int, SInt)) and isinstance(b, (int, SInt)):
        if isinstance(a, int) and isinstance(b, int):
            return a == b
        return lift_int(a) == lift_int(b)
    if isinstance(a, (str, SStr, SDecStr, SFn)) and isinstance(b, (str, SStr, SDecStr, SFn)):
        r = I.str_eq(a, b)
        return r if isinstance(r, bool) else r.t
    if isinstance(a, (tuple, list)) and isinstance(b, (tuple, list)):
        if len(a) != len(b):
            return False
        parts = [obs_eq(I, x, y) for x, y in zip(a, b)]
        if any(p is False for p in parts):
            return False
        parts = [p for p in parts if p is not True]
        return z3.And(*parts) if parts else True
    if isinstance(a, dict) and isinstance(b, dict):
        if set(a) != set(b):
            return False
        return obs_eq(I, [a[k] for k in sorted(a, key=str)], [b[k] for k in sorted(b, key=str)])
    if is_sym(a) or is_sym(b):
        return False
    return a == b


def as_formula(x):
    return z3.BoolVal(x) if isinstance(x, bool) else x


def decode(model, v):
    """concrete python value of a symbolic input under a model"""
    if isinstance(v, SStr):
        return "".join(chr(solve.model_int(model, c)) for c in v.chars)
    if isinstance(v, SInt):
        return solve.model_int(model, v.t)
    if isinstance(v, SBool):
        return z3.is_true(model.eval(v.t, model_completion=True))
    if isinstance(v, SFn):
        n = solve.model_int(model, v.len)
        return "".join(chr(solve.model_int(model, v.at(z3.IntVal(i)))) for i in range(min(n, 200)))
    if isinstance(v, (list, tuple)):
        return type(v)(decode(model, x) for x in v)
    if isinstance(v, dict):
        return {k: decode(model, x) for k, x in v.items()}
    return v


def run(task: Task, seed=0, tier="quick"):
    """returns a result dict with obligations etc.  Never raises: failures become an 'error' obligation."""
    t0 = time.time()
    res = dict(task=task.name, obligations=[], functions={}, files={}, paths=0, spec_paths=0, error=None,
               assumptions=[], crosscheck=0, havoc=[], shared_writes=[], secs=0.0, unknown_feasibility=0)
    I = Interp(contracts=dict(task.contracts))
    I.interfere = set(getattr(task, "interfere", ()))
    try:
        _run(task, I, res, seed, tier)
    except FrameViolation as fv:
        res["frame_violation"] = str(fv)
        res["error"] = f"unsupported: {fv}"
        try:
            _frame_replay(task, res, seed, str(fv))
        except Exception:  # noqa: BLE001
            pass
        try:
            _crosscheck(task, res, seed, tier)     # state that outlives a call: the sequence of native samples may show it
        except Exception:  # noqa: BLE001
            pass
    except Unsupported as u:
        res["error"] = f"unsupported: {u}"
        res["trace"] = traceback.format_exc()[-1500:]
        try:
            _crosscheck(task, res, seed, tier)
        except Exception:  # noqa: BLE001
            pass
    except Exception as ex:  # noqa: BLE001 - checker fault, reported as such (exit 3), never as a violation
        res["error"] = f"checker fault: {type(ex).__name__}: {ex}"
        res["trace"] = traceback.format_exc()[-3000:]
    if res.get("error") and not res.get("shared_writes"):
        # the run stopped early: still report the shared writes of the path that was being executed
        sw = set()
        for w in I.writes:
            if w.get("shared"):
                sw.add((w["target"], w.get("attr", w.get("key", "")), w["where"], w["line"],
                        w.get("file", "?"), w.get("abs_line", 0)))
        res["shared_writes"] = sorted(sw)
    res["functions"] = {k: list(v) for k, v in I.functions_seen.items()}
    res["files"] = dict(I.files_seen)
    res["havoc"] = sorted(set(I.havoc_log))
    res["external_calls"] = sorted(I.external_calls)
    res["nqueries"] = I.nqueries
    res["unknown_feasibility"] = I.unknown_feasibility
    res["secs"] = round(time.time() - t0, 2)
    res["solver"] = dict(solve.STATS)
    return res


def _merge_spec(I, paths, observe):
    out = []
    for p in paths:
        out.append((p["pc"], observe(I, p)))
    return out


TASK_BUDGET_S = int(os.environ.get("PYVC_TASK_BUDGET_S", "420"))
CONFIRMED_CAP_TASK = int(os.environ.get("PYVC_CONFIRMED_CAP_TASK", "3"))
CONFIRMED_CAP_RUN = int(os.environ.get("PYVC_CONFIRMED_CAP_RUN", "12"))
CONFIRMED_COUNTER = None        # multiprocessing.Value shared by the workers of one run (props.common.run_tasks)
CAPS_ENABLED = True             # switched off by props.common when KNOWN_FINDINGS.txt lists an open finding


def _count_confirmed():
    c = CONFIRMED_COUNTER
    if c is not None:
        with c.get_lock():
            c.value += 1


def _confirmed_enough(here):
    if not CAPS_ENABLED:
        return False
    if here >= CONFIRMED_CAP_TASK:
        return True
    c = CONFIRMED_COUNTER
    return c is not None and c.value >= CONFIRMED_CAP_RUN


def _run(task, I, res, seed, tier):
    t_start = time.time()
    I.deadline = t_start + TASK_BUDGET_S
    inp = task.setup(I)
    base = list(I.assumptions)
    if I.interfere:
        # phase A: undisturbed exploration, to learn what a call can write into the shared fields (the guarantee)
        want = set(I.interfere)
        I.interfere = set()
        for p in I.explore(lambda: task.code(I, inp), max_paths=task.max_paths):
            for w in p["writes"]:
                if w.get("shared") and (w["target"], w.get("attr")) in want and isinstance(w.get("value"), (int, SInt)):
                    I.guarantee.setdefault((w["target"], w["attr"]), []).append((w["pc"], lift_int(w["value"])))
        I.interfere = want
    # exploration may use 60 % of the task budget; if it is cut off, the paths found so far are still put to the
    # obligations: a refutation with a natively confirmed input is a violation whatever the rest of the tree does,
    # while nothing is claimed proved (the task ends "incomplete" = undecided)
    code_paths = []
    incomplete = None
    I.deadline = t_start + 0.6 * TASK_BUDGET_S
    try:
        for p in I.explore(lambda: task.code(I, inp), max_paths=task.max_paths):
            code_paths.append(p)
    except Unsupported as u:
        if "exceeded the task time budget" not in str(u) or not code_paths:
            raise
        incomplete = f"{u} after {len(code_paths)} paths"
    I.deadline = t_start + TASK_BUDGET_S
    res["paths"] = len(code_paths)
    obls = res["obligations"]
    # shared writes (C14/C15 frames)
    sw = set()
    for p in code_paths:
        for w in p["writes"]:
            if w.get("shared"):
                sw.add((w["target"], w.get("attr", w.get("key", "")), w["where"], w["line"],
                        w.get("file", "?"), w.get("abs_line", 0)))
    res["shared_writes"] = sorted(sw)

    by_pc = {id(p["pc"]): p for p in code_paths}
    confirmed_here = [0]

    def solve_clause(name, hyps, goal, kind="vc"):
        """discharge: assumptions ∧ hyps ⇒ goal"""
        if time.time() - t_start > TASK_BUDGET_S:
            obls.append(obligation(name, "undecided", "none (task time budget exhausted)", 0.0, kind=kind))
            return False
        if kind != "cover" and _confirmed_enough(confirmed_here[0]):
            # the run already reports a violation with a natively confirmed input: the remaining obligations of this
            # task are not tried (undecided, never counted as discharged) - keeps a broken tree from taking hours
            obls.append(obligation(name, "undecided", "none (skipped: violations already confirmed natively in this run)", 0.0, kind=kind))
            return False
        fs = list(I.assumptions) + list(hyps) + [z3.Not(as_formula(goal))]
        fs = canon.canonicalise(fs, getattr(I, "domains", {}), getattr(I, "term_domains", ()))
        if os.environ.get("PYVC_DUMP") and os.environ["PYVC_DUMP"] in name:
            sd = z3.Solver()
            sd.add(*fs)
            open("/tmp/dump.smt2", "w").write(sd.to_smt2())
        if kind == "cover":
            st, model, backend, secs = solve.check(fs, timeout_ms=6000, use_cvc5=False)   # engine sanity only
        else:
            st, model, backend, secs = solve.check(fs)
        if st == "unsat":
            obls.append(obligation(name, "discharged", backend, secs, kind=kind))
            return True
        if kind == "cover" and st == "unknown":
            res.setdefault("sanity_skipped", []).append(name)      # engine sanity check, not part of the property
            return True
        if st == "sat":
            wit = None
            detail = ""
            if model is not None:
                wit = decode(model, inp)
                path = by_pc.get(id(hyps))
                prelude = []
                if path is not None and path.get("history"):
                    for fn, a, kw in path["history"]:
                        prelude.append((fn, [native_value(model, I, path, x) for x in a],
                                        {k: native_value(model, I, path, x) for k, x in kw.items()}))
                    wit["__earlier_calls__"] = [f"{fn.__wrapped__.__qualname__}({', '.join(_describe(x) for x in a)})"
                                                for fn, a, kw in prelude]
                    wit["__prelude__"] = serialize_prelude(prelude)
                detail = _replay(task, wit, prelude)
                if detail.startswith("NOT-CONFIRMED"):
                    # candidate models are not witnesses when a spec function (Num) is uninterpreted in the query:
                    # phase 2 re-solves with Num expanded over a width-homogeneous alphabet (DESIGN 2.6)
                    for mode in ("digits", "letters"):
                        fs2 = expand_num(fs, mode)
                        if fs2 is None:
                            break
                        st2, model2, _, secs2 = solve.check(fs2, use_cvc5=False)
                        secs += secs2
                        if st2 == "sat" and model2 is not None:
                            wit2 = decode(model2, inp)
                            prelude2 = []
                            if path is not None and path.get("history"):
                                for fn, a, kw in path["history"]:
                                    prelude2.append((fn, [native_value(model2, I, path, x) for x in a],
                                                     {k: native_value(model2, I, path, x) for k, x in kw.items()}))
                                wit2["__earlier_calls__"] = [
                                    f"{fn.__wrapped__.__qualname__}({', '.join(_describe(x) for x in a)})"
                                    for fn, a, kw in prelude2]
                                wit2["__prelude__"] = serialize_prelude(prelude2)
                            d2 = _replay(task, wit2, prelude2)
                            if d2.startswith("CONFIRMED"):
                                wit, detail = wit2, d2 + " (witness search with Num expanded)"
                                break
                    else:
                        detail = "NOWITNESS-UF " + detail
            obls.append(obligation(name, "refuted", backend, secs, witness=wit, detail=detail, kind=kind))
            if detail.startswith("CONFIRMED"):
                confirmed_here[0] += 1
                _count_confirmed()
            return False
        obls.append(obligation(name, "undecided", backend, secs, kind=kind))
        return False

    # 1. engine sanity: the code paths cover the domain
    if code_paths and not incomplete and not any(p.get("history") for p in code_paths) and not getattr(task, "skip_cover", False):
        solve_clause(f"{task.name}: paths cover the input domain", [],
                     z3.Or(*[z3.And(*p["pc"]) if p["pc"] else z3.BoolVal(True) for p in code_paths]), kind="cover")
    # 2. safety obligations collected from contracts along the paths, grouped by name
    groups = {}
    for p in code_paths:
        for (nm, pc, clause) in p["obligations"]:
            groups.setdefault(nm, []).append(z3.Implies(z3.And(*pc) if pc else z3.BoolVal(True), clause))
    for nm, cls in sorted(groups.items()):
        solve_clause(f"{task.name}: {nm}", [], z3.And(*cls), kind="pre")
    # 3. functional obligations
    have_band = task.lower is not None
    cobs = [(p, task.observe(I, p)) for p in code_paths]
    for p, o in cobs:
        if isinstance(o, Escape) and isinstance(o.exc, getattr(task, "admitted_escapes", ())):
            continue        # the task's own obligations decide when this exception is the specified outcome
        if isinstance(o, Escape):
            # an escaping path is feasible by construction of the DFS: decode its path condition
            st, model, backend, secs = solve.check(list(I.assumptions) + p["pc"])
            if st == "unsat":
                continue
            wit = decode(model, inp) if model is not None else None
            detail = _replay(task, wit) if wit is not None else ""
            obls.append(obligation(f"{task.name}: no exception outside the library family ({type(o.exc).__name__})",
                                   "refuted" if st == "sat" else "undecided", backend, secs, wit, detail, kind="escape"))
    if getattr(task, "custom_obligations", None) is not None:
        for nm, hyps, goal in task.custom_obligations(I, inp, code_paths, cobs):
            solve_clause(f"{task.name}: {nm}", hyps, goal)
    elif have_band:
        lo_paths = _merge_spec(I, list(I.explore(lambda: task.lower(I, inp))), task.observe_spec)
        up_paths = _merge_spec(I, list(I.explore(lambda: task.upper(I, inp))), task.observe_spec)
        res["spec_paths"] = len(lo_paths) + len(up_paths)
        lo_true = z3.Or(*[z3.And(*pc, as_formula(obs_eq(I, o, True))) for pc, o in lo_paths])
        up_true = z3.Or(*[z3.And(*pc, as_formula(obs_eq(I, o, True))) for pc, o in up_paths])
        for i, (p, o) in enumerate(cobs):
            if isinstance(o, Escape):
                continue
            acc = as_formula(obs_eq(I, o, True))
            solve_clause(f"{task.name}: path {i}: accepted => upper spec", p["pc"], z3.Implies(acc, up_true))
            solve_clause(f"{task.name}: path {i}: lower spec => accepted", p["pc"], z3.Implies(lo_true, acc))
    else:
        spec_paths = list(I.explore(lambda: task.spec(I, inp)))
        res["spec_paths"] = len(spec_paths)
        sobs = _merge_spec(I, spec_paths, task.observe_spec)
        solve_clause(f"{task.name}: spec is total on the domain", [],
                     z3.Or(*[z3.And(*pc) if pc else z3.BoolVal(True) for pc, _ in sobs]), kind="cover")
        for pc, o in sobs:
            if isinstance(o, Escape):
                raise Unsupported(f"spec function raised {o!r}")
        for i, (p, o) in enumerate(cobs):
            if isinstance(o, Escape):
                continue
            agree = []
            for pc_s, o_s in sobs:
                e = obs_eq(I, o, o_s)
                if e is False:
                    continue
                agree.append(z3.And(*pc_s, as_formula(e)))
            goal = z3.Or(*agree) if agree else z3.BoolVal(False)
            solve_clause(f"{task.name}: path {i} ({_kind(o)}) agrees with the spec", p["pc"], goal)
    for extra in task.extra_obligations(I, inp, code_paths):
        nm, hyps, goal = extra[:3]
        solve_clause(f"{task.name}: {nm}", hyps, goal, kind=(extra[3] if len(extra) > 3 else "vc"))
    if incomplete:
        for o in obls:
            if o["status"] == "discharged":
                o["status"], o["backend"] = "undecided", o["backend"] + " (path discharged, exploration incomplete)"
        raise Unsupported(incomplete + "; the obligations of the explored paths were tried for refutations only")
    _crosscheck(task, res, seed, tier)


def _frame_replay(task, res, seed, what):
    """a path writes to state that outlives the call: confirm natively by comparing a snapshot of the library's
    process-wide state before and after running sampled calls"""
    from . import statewatch
    if _confirmed_enough(0):
        res["obligations"].append(obligation(
            f"{task.name}: writes only to objects allocated during the call", "refuted", "pyvc write log", 0.0, witness=None,
            detail=f"NOWITNESS {what}; native confirmation skipped: violations already confirmed natively in this run", kind="frame"))
        return
    rnd = random.Random(seed + 5)
    before = statewatch.snapshot()
    for _ in range(20):
        s = task.sample(rnd)
        if s is None:
            s = {}
        res.setdefault("earlier_samples", []).append(s)
        try:
            task.native_code(s)
        except NotImplementedError:
            try:
                task.native_agree(s)
            except Exception:  # noqa: BLE001
                pass
        except Exception:  # noqa: BLE001
            pass
        after = statewatch.snapshot()
        if after != before:
            changed = statewatch.diff(before, after)
            if not any(k.startswith(("registry[", "algorithms")) for k in changed):
                # only module-level containers / caches changed: that is history-carrying state, but whether any
                # outcome depends on it is not known from the write alone (a correctly keyed memo is harmless)
                res["obligations"].append(obligation(
                    f"{task.name}: writes only to objects allocated during the call", "refuted", "pyvc write log + cpython",
                    0.0, witness=dict(s, __state_changed__=changed),
                    detail=f"NOWITNESS the call changes module-level state {changed} ({what}); no outcome difference shown "
                           "by this obligation (see the bounded history run)", kind="frame"))
                res["error"] = None
                return
            res["obligations"].append(obligation(
                f"{task.name}: writes only to objects allocated during the call", "refuted", "pyvc write log + cpython", 0.0,
                witness=dict(s, __state_changed__=changed),
                detail=f"CONFIRMED natively: after the call the library's process-wide state differs: {changed} ({what})",
                kind="frame"))
            res["error"] = None
            _count_confirmed()
            return
        if not s:
            break
    res["obligations"].append(obligation(
        f"{task.name}: writes only to objects allocated during the call", "refuted", "pyvc write log", 0.0, witness=None,
        detail=f"NOWITNESS {what}; no sampled call changed the observable process-wide state", kind="frame"))


def _crosscheck(task, res, seed, tier):
    """native cross-check of the real code against the sidecar spec on sampled inputs (bounded; also guards the
    encoder).  Runs even when the symbolic part gave up, so that a change beyond the engine's reach can still be
    caught with a replayable input."""
    if res.get("crosscheck_done"):
        return
    res["crosscheck_done"] = True
    obls = res["obligations"]
    import zlib
    rnd = random.Random(seed * 7919 + zlib.crc32(task.name.encode()) % 1000)     # NOT hash(): that varies per process
    n = task.crosscheck_samples * (5 if tier == "thorough" else 1)
    k = 0
    earlier = [e for e in res.pop("earlier_samples", []) if isinstance(e, dict) and e]   # run by the frame replay before
    for _ in range(n):
        try:
            s = task.sample(rnd)
        except Exception:  # noqa: BLE001
            break
        if s is None:
            break
        k += 1
        try:
            ok, c, sp = task.native_agree(s)
        except Exception as ex:  # noqa: BLE001
            ok, c, sp = False, f"ESCAPE {type(ex).__name__}: {ex}", "?"
        if not ok:
            # the samples run in sequence in one process: the earlier ones are part of the witness (a failure that
            # needs them is a dependence on call history; ./check --replay tries the input alone first)
            wit = dict(s, __earlier_samples__=list(earlier)) if isinstance(s, dict) and earlier else s
            obls.append(obligation(f"{task.name}: native cross-check (bounded)", "refuted", "cpython", 0.0,
                                   witness=wit, detail=f"replayed natively: code -> {c!r}, spec -> {sp!r}"
                                   + (f" (sample {k} of a sequence in one process)" if earlier else ""), kind="bounded"))
            break
        if isinstance(s, dict):
            earlier.append(s)
    res["crosscheck"] = k


def spec_formula(I, fn, args, ctx=()):
    """z3 formula `fn(*args) is True`, from the symbolic exploration of a boolean spec function; `ctx` is the path
    condition under which it is evaluated (so that facts of the code path are available to the contracts)"""
    parts = []
    cover = []
    saved = (I.decisions, I.pos, I.pc, I.heap, I.writes, I.local_ids, I.path_obligations, I.keep, I.defs)
    saved_base = list(getattr(I, "base_pc", ()))
    I.base_pc = list(ctx)
    try:
        for p in I.explore(lambda: I.call(fn, list(args), {})):
            if p["kind"] != "return":
                raise Unsupported(f"spec function {fn.__name__} raised {p['value']!r}")
            v = p["value"]
            v = concretize(v) if is_sym(v) else v
            cover.append(z3.And(*p["pc"]) if p["pc"] else z3.BoolVal(True))
            if v is False:
                continue
            parts.append(z3.And(*p["pc"], lift_bool(v)))
    finally:
        I.base_pc = saved_base
        (I.decisions, I.pos, I.pc, I.heap, I.writes, I.local_ids, I.path_obligations, I.keep, I.defs) = saved
    return (z3.Or(*parts) if parts else z3.BoolVal(False)), z3.Or(*cover)


def _kind(o):
    if is_sym(o) or isinstance(o, (list, tuple, dict)):
        return "symbolic result"
    return _short(o)


def _short(o):
    s = repr(o)
    return s if len(s) < 40 else s[:37] + "..."


def _has_opaque(w):
    from .values import SOpaqueStr
    if isinstance(w, SOpaqueStr):
        return True
    if isinstance(w, dict):
        return any(_has_opaque(x) for x in w.values())
    if isinstance(w, (list, tuple)):
        return any(_has_opaque(x) for x in w)
    return False


def expand_num(fs, mode):
    """add the exact value of every uninterpreted Num<n>(c1..cn) application occurring in fs, with characters whose
    width is not fixed by fs restricted to digits (mode 'digits') or letters.  None if there is no such application"""
    apps = {}
    seen = set()
    stack = list(fs)
    while stack:
        t = stack.pop()
        if t.get_id() in seen:
            continue
        seen.add(t.get_id())
        if z3.is_app(t):
            if t.decl().kind() == z3.Z3_OP_UNINTERPRETED and re.fullmatch(r"Num\d+", t.decl().name()) and t.num_args():
                apps[t.get_id()] = t
            stack.extend(t.children())
    if not apps:
        return None
    base = z3.Solver()
    base.set("timeout", 3000)
    base.add(*fs[:-1])
    extra = []
    width_cache = {}
    for app in apps.values():
        acc = z3.IntVal(0)
        for c in app.children():
            k = c.get_id()
            if k not in width_cache:
                dig = z3.And(c >= 48, c <= 57)
                let = z3.And(c >= 65, c <= 90)
                if base.check(z3.Not(dig)) == z3.unsat:
                    width_cache[k] = "d"
                elif base.check(z3.Not(let)) == z3.unsat:
                    width_cache[k] = "l"
                else:
                    width_cache[k] = "d" if mode == "digits" else "l"
                    extra.append(dig if mode == "digits" else let)
            acc = acc * 10 + (c - 48) if width_cache[k] == "d" else acc * 100 + (c - 55)
        extra.append(app == acc)
    return list(fs) + extra


def native_value(model, I, path, v):
    """rebuild a concrete native object for a symbolic value (used for the earlier calls a path assumes)"""
    if isinstance(v, SObj):
        text = decode(model, payload(v)) if v.payload is not None else ""
        obj = str.__new__(v.cls, text) if issubclass(v.cls, str) else object.__new__(v.cls)
        for (oid, name), val in path["heap"].items():
            if oid == id(v):
                try:
                    object.__setattr__(obj, name, native_value(model, I, path, val))
                except Exception:  # noqa: BLE001
                    pass
        return obj
    return decode(model, v)


def serialize_prelude(prelude):
    out = []
    for fn, a, kw in prelude:
        w = getattr(fn, "__wrapped__", fn)
        out.append(dict(fn=f"{w.__module__}:{w.__qualname__}", args=[_ser(x) for x in a],
                        kwargs={k: _ser(v) for k, v in kw.items()}))
    return out


def _ser(x):
    d = getattr(x, "__dict__", None)
    if isinstance(x, str) and type(x) is not str:
        return dict(cls=f"{type(x).__module__}:{type(x).__qualname__}", text=str(x),
                    fields={k: _ser(v) for k, v in (d or {}).items()})
    return x


def _deser(x):
    if isinstance(x, dict) and "cls" in x and "text" in x:
        import importlib
        mod, qn = x["cls"].split(":")
        cls = importlib.import_module(mod)
        for part in qn.split("."):
            cls = getattr(cls, part)
        obj = str.__new__(cls, x["text"])
        for k, v in x.get("fields", {}).items():
            object.__setattr__(obj, k, _deser(v))
        return obj
    return x


def run_prelude(serialized):
    """re-run the earlier calls recorded with a witness; returns the callables (to clear their caches afterwards)"""
    import importlib
    fns = []
    for rec in serialized or []:
        mod, qn = rec["fn"].split(":")
        fn = importlib.import_module(mod)
        for part in qn.split("."):
            fn = getattr(fn, part)
        fns.append(fn)
        try:
            fn(*[_deser(a) for a in rec["args"]], **{k: _deser(v) for k, v in rec.get("kwargs", {}).items()})
        except Exception:  # noqa: BLE001
            pass
    return fns


def _describe(x):
    d = getattr(x, "__dict__", None)
    return f"{type(x).__name__}({str(x)!r}, {d})" if d else repr(x)


def _replay(task, wit, prelude=()):
    """native replay of a decoded counterexample; returns a description starting with CONFIRMED / NOT-CONFIRMED"""
    if prelude:
        try:
            for fn, a, kw in prelude:
                try:
                    fn(*a, **kw)
                except Exception:  # noqa: BLE001 - the earlier call may fail; what it left in the cache matters
                    pass
            return _replay(task, {k: v for k, v in wit.items() if not k.startswith("__")})
        finally:
            for fn, a, kw in prelude:
                if hasattr(fn, "cache_clear"):
                    fn.cache_clear()
    if _has_opaque(wit):
        # structural obligation over an opaque input: look for a concrete failing input among the task's samples
        rnd = random.Random(12345)
        for _ in range(2000):
            s = task.sample(rnd)
            if s is None:
                break
            try:
                ok, c, sp = task.native_agree(s)
            except Exception:  # noqa: BLE001
                continue
            if not ok:
                wit.clear()
                wit.update(s)
                return f"CONFIRMED natively: code -> {c!r}, spec -> {sp!r}"
        for k in list(wit):
            wit[k] = repr(wit[k])
        return "NOWITNESS structural obligation failed but no sampled input shows a difference"
    try:
        ok, c, s = task.native_agree(wit)
    except Exception as ex:  # noqa: BLE001
        return f"NOT-CONFIRMED replay raised {type(ex).__name__}: {ex}"
    if ok:
        return f"NOT-CONFIRMED natively code -> {c!r} and spec -> {s!r} agree on {wit!r}"
    return f"CONFIRMED natively: code -> {c!r}, spec -> {s!r}"


def native_obs(fn, *args, **kw):
    """run a real function natively and normalise the outcome like std_observe"""
    from schwifty.exceptions import SchwiftyException
    try:
        return fn(*args, **kw)
    except SchwiftyException as ex:
        return ExcTag(type(ex).__name__)
    except SpecRaise as ex:
        return ExcTag(ex.args[0])
    except Exception as ex:  # noqa: BLE001
        return Escape(ex)
