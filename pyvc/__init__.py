from .interp import Interp, Frame  # noqa: F401
from .values import *  # noqa: F401,F403
